package vh

import (
	"fmt"
	"sort"
	"strconv"
	"strings"

	"github.com/dpb587/rdfkit-go/rdf"
)

// RDF dataset isomorphism for small inputs (a few dozen quads, about ten blank nodes).
//
// Two lists of quads are isomorphic when a bijection between their blank nodes maps one onto the
// other; IRIs, literals and the default graph (nil graph name) are fixed points. Blank nodes are
// identified by their Identifier (rdf.BlankNodeIdentifier implementations are comparable: the
// repository itself uses them as map keys); blank graph names are renamed together with the nodes.

// Isomorphic compares a and b as sets: quads that are equal term by term count once.
func Isomorphic(a, b []rdf.Quad) bool {
	return isoSolve(isoSide(a, true), isoSide(b, true))
}

// IsomorphicMulti compares a and b as multisets: len(a) == len(b) and a bijection of the blank nodes
// maps a onto b preserving multiplicities.
func IsomorphicMulti(a, b []rdf.Quad) bool {
	if len(a) != len(b) {
		return false
	}
	return isoSolve(isoSide(a, false), isoSide(b, false))
}

// isoSlot is one position of a quad: a ground key, or the index of a blank node (bn >= 0).
type isoSlot struct {
	ground string
	bn     int
}

type isoQuad struct {
	s    [4]isoSlot
	mult int
}

type isoGraph struct {
	nbn    int
	total  int            // number of quads with multiplicity
	quads  []isoQuad      // distinct quads mentioning at least one blank node
	ground map[string]int // multiset of the quads without blank nodes
	byNode [][]int        // node -> indices into quads
}

func isoLiteralTag(t rdf.LiteralTag) string {
	switch v := t.(type) {
	case nil:
		return ""
	case rdf.LanguageLiteralTag:
		return "@" + v.Language
	default:
		return fmt.Sprintf("?%#v", t)
	}
}

// isoGroundKey is injective on ground terms (length-prefixed fields).
func isoGroundKey(t rdf.Term) string {
	switch v := t.(type) {
	case nil:
		return "-"
	case rdf.IRI:
		return "I" + string(v)
	case rdf.Literal:
		tag := isoLiteralTag(v.Tag)
		return "L" + strconv.Itoa(len(v.Datatype)) + ":" + string(v.Datatype) + strconv.Itoa(len(v.LexicalForm)) + ":" + v.LexicalForm + tag
	}
	return fmt.Sprintf("?%#v", t)
}

func (q isoQuad) key(rename func(int) int) string {
	var sb strings.Builder
	for i, s := range q.s {
		if i > 0 {
			sb.WriteByte(0)
		}
		if s.bn >= 0 {
			sb.WriteString("_")
			sb.WriteString(strconv.Itoa(rename(s.bn)))
		} else { // length-prefixed: the key stays injective whatever bytes the term contains
			sb.WriteString(strconv.Itoa(len(s.ground)))
			sb.WriteString(":")
			sb.WriteString(s.ground)
		}
	}
	return sb.String()
}

func isoIdent(i int) int { return i }

func isoSide(qs []rdf.Quad, set bool) *isoGraph {
	g := &isoGraph{ground: map[string]int{}}
	idx := map[rdf.BlankNodeIdentifier]int{}
	slot := func(t rdf.Term) isoSlot {
		if t == nil {
			return isoSlot{ground: "-", bn: -1}
		}
		if b, ok := t.(rdf.BlankNode); ok {
			i, seen := idx[b.Identifier]
			if !seen {
				i = len(idx)
				idx[b.Identifier] = i
			}
			return isoSlot{bn: i}
		}
		return isoSlot{ground: isoGroundKey(t), bn: -1}
	}
	pos := map[string]int{}
	for _, q := range qs {
		var gn rdf.Term
		if q.GraphName != nil {
			gn = q.GraphName
		}
		iq := isoQuad{s: [4]isoSlot{slot(q.Triple.Subject), slot(q.Triple.Predicate), slot(q.Triple.Object), slot(gn)}, mult: 1}
		k := iq.key(isoIdent)
		isGround := iq.s[0].bn < 0 && iq.s[1].bn < 0 && iq.s[2].bn < 0 && iq.s[3].bn < 0
		if isGround {
			if set && g.ground[k] > 0 {
				continue
			}
			g.ground[k]++
			g.total++
			continue
		}
		if p, ok := pos[k]; ok {
			if !set {
				g.quads[p].mult++
				g.total++
			}
			continue
		}
		pos[k] = len(g.quads)
		g.quads = append(g.quads, iq)
		g.total++
	}
	g.nbn = len(idx)
	g.byNode = make([][]int, g.nbn)
	for qi, q := range g.quads {
		seen := map[int]bool{}
		for _, s := range q.s {
			if s.bn >= 0 && !seen[s.bn] {
				seen[s.bn] = true
				g.byNode[s.bn] = append(g.byNode[s.bn], qi)
			}
		}
	}
	return g
}

// isoRefine: colour refinement carried out jointly on both sides so that colour numbers are
// comparable. The colour of a node is determined by the multiset of its quads, each described by its
// ground terms, the positions of the node itself and the colours of the other blank nodes.
func isoRefine(a, b *isoGraph) (ca, cb []int) {
	ca, cb = make([]int, a.nbn), make([]int, b.nbn)
	classes := 1
	for round := 0; round <= a.nbn+b.nbn; round++ {
		sig := func(g *isoGraph, col []int, n int) string {
			parts := make([]string, 0, len(g.byNode[n]))
			for _, qi := range g.byNode[n] {
				q := g.quads[qi]
				parts = append(parts, strconv.Itoa(q.mult)+"*"+q.key(func(m int) int {
					if m == n {
						return -1
					}
					return col[m]
				}))
			}
			sort.Strings(parts)
			return strconv.Itoa(col[n]) + "\x01" + strings.Join(parts, "\x02")
		}
		sa, sb := make([]string, a.nbn), make([]string, b.nbn)
		rank := map[string]int{}
		for n := range sa {
			sa[n] = sig(a, ca, n)
			rank[sa[n]] = 0
		}
		for n := range sb {
			sb[n] = sig(b, cb, n)
			rank[sb[n]] = 0
		}
		for i, k := range SortedKeys(rank) {
			rank[k] = i
		}
		for n := range sa {
			ca[n] = rank[sa[n]]
		}
		for n := range sb {
			cb[n] = rank[sb[n]]
		}
		if len(rank) == classes {
			break
		}
		classes = len(rank)
	}
	return ca, cb
}

func isoSolve(a, b *isoGraph) bool {
	if a.nbn != b.nbn || a.total != b.total || len(a.quads) != len(b.quads) || len(a.ground) != len(b.ground) {
		return false
	}
	for k, n := range a.ground {
		if b.ground[k] != n {
			return false
		}
	}
	if a.nbn == 0 {
		return true
	}
	ca, cb := isoRefine(a, b)
	classA, classB := map[int][]int{}, map[int][]int{}
	for n, c := range ca {
		classA[c] = append(classA[c], n)
	}
	for n, c := range cb {
		classB[c] = append(classB[c], n)
	}
	if len(classA) != len(classB) {
		return false
	}
	for c, ns := range classA {
		if len(classB[c]) != len(ns) {
			return false
		}
	}
	bMult := map[string]int{}
	for _, q := range b.quads {
		bMult[q.key(isoIdent)] = q.mult
	}
	// most constrained first: small colour classes, then nodes of high degree; after the first node
	// prefer nodes adjacent to already placed ones (their quads become checkable early).
	order := make([]int, 0, a.nbn)
	placed := make([]bool, a.nbn)
	adjacent := make([]bool, a.nbn)
	for len(order) < a.nbn {
		best := -1
		better := func(x, y int) bool {
			if adjacent[x] != adjacent[y] {
				return adjacent[x]
			}
			if len(classA[ca[x]]) != len(classA[ca[y]]) {
				return len(classA[ca[x]]) < len(classA[ca[y]])
			}
			if len(a.byNode[x]) != len(a.byNode[y]) {
				return len(a.byNode[x]) > len(a.byNode[y])
			}
			return x < y
		}
		for n := 0; n < a.nbn; n++ {
			if !placed[n] && (best < 0 || better(n, best)) {
				best = n
			}
		}
		placed[best] = true
		order = append(order, best)
		for _, qi := range a.byNode[best] {
			for _, s := range a.quads[qi].s {
				if s.bn >= 0 {
					adjacent[s.bn] = true
				}
			}
		}
	}
	fwd := make([]int, a.nbn)
	for i := range fwd {
		fwd[i] = -1
	}
	used := make([]bool, b.nbn)
	rename := func(n int) int { return fwd[n] }
	// consistent: every quad of a that mentions n and is completely mapped exists in b with the same
	// multiplicity. The renaming is injective, so distinct quads of a land on distinct quads of b; with
	// equal totals, success for all quads is multiset equality.
	consistent := func(n int) bool {
		for _, qi := range a.byNode[n] {
			q := a.quads[qi]
			complete := true
			for _, s := range q.s {
				if s.bn >= 0 && fwd[s.bn] < 0 {
					complete = false
					break
				}
			}
			if complete && bMult[q.key(rename)] != q.mult {
				return false
			}
		}
		return true
	}
	var place func(i int) bool
	place = func(i int) bool {
		if i == len(order) {
			return true
		}
		n := order[i]
		for _, m := range classB[ca[n]] {
			if used[m] {
				continue
			}
			fwd[n], used[m] = m, true
			if consistent(n) && place(i+1) {
				return true
			}
			fwd[n], used[m] = -1, false
		}
		return false
	}
	return place(0)
}

// IsomorphSelfTest exercises Isomorphic / IsomorphicMulti on hand-made cases.
func IsomorphSelfTest() error {
	f := rdf.NewBlankNodeFactory()
	var n [24]rdf.BlankNode
	for i := range n {
		n[i] = f.NewBlankNode()
	}
	p, q := rdf.IRI("urn:p"), rdf.IRI("urn:q")
	t := func(s rdf.SubjectValue, p rdf.IRI, o rdf.ObjectValue) rdf.Quad {
		return rdf.Quad{Triple: rdf.Triple{Subject: s, Predicate: p, Object: o}}
	}
	tg := func(s rdf.SubjectValue, p rdf.IRI, o rdf.ObjectValue, g rdf.GraphNameValue) rdf.Quad {
		return rdf.Quad{Triple: rdf.Triple{Subject: s, Predicate: p, Object: o}, GraphName: g}
	}
	lit := func(lex, dt, lang string) rdf.Literal {
		l := rdf.Literal{LexicalForm: lex, Datatype: rdf.IRI(dt)}
		if lang != "" {
			l.Tag = rdf.LanguageLiteralTag{Language: lang}
		}
		return l
	}
	ring := func(nodes []rdf.BlankNode) []rdf.Quad {
		var out []rdf.Quad
		for i := range nodes {
			out = append(out, t(nodes[i], p, nodes[(i+1)%len(nodes)]))
		}
		return out
	}
	var star1, star2 []rdf.Quad
	for i := 0; i < 10; i++ {
		star1 = append(star1, t(rdf.IRI("urn:s"), p, n[i]))
		star2 = append(star2, t(rdf.IRI("urn:s"), p, n[19-i]))
	}
	type tc struct {
		name       string
		a, b       []rdf.Quad
		set, multi bool
	}
	cases := []tc{
		{"empty", nil, nil, true, true},
		{"ground equal, reordered", []rdf.Quad{t(p, p, q), t(q, p, p)}, []rdf.Quad{t(q, p, p), t(p, p, q)}, true, true},
		{"ground differs", []rdf.Quad{t(p, p, q)}, []rdf.Quad{t(p, p, p)}, false, false},
		{"two-cycle relabelled", []rdf.Quad{t(n[0], p, n[1]), t(n[1], p, n[0])}, []rdf.Quad{t(n[3], p, n[2]), t(n[2], p, n[3])}, true, true},
		{"fork vs chain", []rdf.Quad{t(n[0], p, n[1]), t(n[0], p, n[2])}, []rdf.Quad{t(n[0], p, n[1]), t(n[1], p, n[2])}, false, false},
		{"merged node", []rdf.Quad{t(n[0], p, q), t(n[1], q, q)}, []rdf.Quad{t(n[2], p, q), t(n[2], q, q)}, false, false},
		{"split node", []rdf.Quad{t(p, p, n[0]), t(n[0], q, q)}, []rdf.Quad{t(p, p, n[1]), t(n[2], q, q)}, false, false},
		{"duplicate vs single", []rdf.Quad{t(n[0], p, q), t(n[0], p, q)}, []rdf.Quad{t(n[1], p, q)}, true, false},
		{"duplicate vs duplicate", []rdf.Quad{t(n[0], p, q), t(n[0], p, q)}, []rdf.Quad{t(n[1], p, q), t(n[1], p, q)}, true, true},
		{"duplicate on the wrong quad", []rdf.Quad{t(n[0], p, q), t(n[0], p, q), t(n[0], q, q)}, []rdf.Quad{t(n[1], p, q), t(n[1], q, q), t(n[1], q, q)}, true, false},
		{"same shape, two nodes vs one twice", []rdf.Quad{t(n[0], p, q), t(n[1], p, q)}, []rdf.Quad{t(n[2], p, q), t(n[2], p, q)}, false, false},
		{"self loop vs edge", []rdf.Quad{t(n[0], p, n[0])}, []rdf.Quad{t(n[0], p, n[1])}, false, false},
		{"predicate differs", []rdf.Quad{t(n[0], p, n[1])}, []rdf.Quad{t(n[0], q, n[1])}, false, false},
		{"direction matters", []rdf.Quad{t(n[0], p, n[1]), t(n[1], q, p)}, []rdf.Quad{t(n[1], p, n[0]), t(n[1], q, p)}, false, false},
		{"blank graph name renamed with node", []rdf.Quad{tg(n[0], p, q, n[0])}, []rdf.Quad{tg(n[1], p, q, n[1])}, true, true},
		{"blank graph name split from node", []rdf.Quad{tg(n[0], p, q, n[0])}, []rdf.Quad{tg(n[1], p, q, n[2])}, false, false},
		{"default graph vs named", []rdf.Quad{t(n[0], p, q)}, []rdf.Quad{tg(n[0], p, q, rdf.IRI("urn:g"))}, false, false},
		{"graph name IRI equal", []rdf.Quad{tg(n[0], p, q, rdf.IRI("urn:g"))}, []rdf.Quad{tg(n[5], p, q, rdf.IRI("urn:g"))}, true, true},
		{"literal language differs", []rdf.Quad{t(n[0], p, lit("y", RDFLangString, "en"))}, []rdf.Quad{t(n[0], p, lit("y", RDFLangString, "de"))}, false, false},
		{"literal datatype differs", []rdf.Quad{t(n[0], p, lit("1", XSD+"integer", ""))}, []rdf.Quad{t(n[0], p, lit("1", XSDString, ""))}, false, false},
		{"literal equal", []rdf.Quad{t(n[0], p, lit("y", RDFLangString, "en"))}, []rdf.Quad{t(n[1], p, lit("y", RDFLangString, "en"))}, true, true},
		{"literal vs IRI", []rdf.Quad{t(n[0], p, lit("urn:q", XSDString, ""))}, []rdf.Quad{t(n[0], p, q)}, false, false},
		{"star of ten, relabelled", star1, star2, true, true},
		{"six-ring vs two triangles", ring(n[0:6]), append(ring(n[6:9]), ring(n[9:12])...), false, false},
		{"ten-ring vs two five-rings", ring(n[0:10]), append(ring(n[10:15]), ring(n[15:20])...), false, false},
		{"ten-ring rotated", ring(n[0:10]), ring(append(append([]rdf.BlankNode{}, n[13:20]...), n[10:13]...)), true, true},
	}
	for _, c := range cases {
		for _, swap := range []bool{false, true} {
			a, b := c.a, c.b
			if swap {
				a, b = b, a
			}
			if got := Isomorphic(a, b); got != c.set {
				return fmt.Errorf("isomorph self-test %q (swapped=%v): Isomorphic = %v, want %v", c.name, swap, got, c.set)
			}
			if got := IsomorphicMulti(a, b); got != c.multi {
				return fmt.Errorf("isomorph self-test %q (swapped=%v): IsomorphicMulti = %v, want %v", c.name, swap, got, c.multi)
			}
		}
	}
	return nil
}
