package main

// T3 for the instrumented token producers: Model.TurtleOffsets (Lean driver, op offx.tok) vs the
// token producers of encoding/turtle and encoding/trig through the verif hook VerifProduceOffsets.
// Compared: token values, runes left, the token's offset range, the text writer's offset and the rune
// buffer's byte offset afterwards; on errors the class and the offset carried by the error. Bytes
// and lines are always compared, columns only for inputs satisfying `simple`.

import (
	"fmt"
	"strconv"
	"strings"

	"verifharness/vh"

	"github.com/dpb587/cursorio-go/cursorio"
	"github.com/dpb587/rdfkit-go/encoding/trig"
	"github.com/dpb587/rdfkit-go/encoding/turtle"
)

var tokKinds = []string{"iriref", "string", "pname_ns", "pname", "bnode", "langtag", "numeric"}

type tokCase struct {
	pkg     string // turtle | trig
	kind    string
	fail    bool
	capture bool
	init    off
	in      []byte
}

func (t tokCase) line(labelOnly bool) string {
	e := "eof"
	if t.fail {
		e = "io"
	}
	return fmt.Sprintf("offx.tok %s %s %s %s 0 %s %s %d,%d,%d %s", t.pkg, t.kind, e, vh.B01(t.capture), vh.B01(labelOnly), vh.B01(simpleDoc(t.in)), t.init.b, t.init.l, t.init.c, vh.X(t.in))
}

func parseTokLine(l string) (tokCase, bool) {
	f := strings.Fields(l)
	if len(f) != 10 || f[0] != "offx.tok" {
		return tokCase{}, false
	}
	t := tokCase{pkg: f[1], kind: f[2], fail: f[3] == "io", capture: f[4] == "1"}
	if _, err := fmt.Sscanf(f[8], "%d,%d,%d", &t.init.b, &t.init.l, &t.init.c); err != nil {
		return tokCase{}, false
	}
	b, err := vh.UnX(f[9])
	if err != nil {
		return tokCase{}, false
	}
	t.in = b
	return t, true
}

func showOffM(o off, cols bool) string {
	if cols {
		return o.String()
	}
	return fmt.Sprintf("%d.%d.*", o.b, o.l)
}

// goTok runs the producer on the implementation; canonical form identical to Driver/Offx.lean.
func goTok(t tokCase) (res string) {
	defer func() {
		if p := recover(); p != nil {
			res = "panic"
		}
	}()
	cols := simpleDoc(t.in)
	rd := &vh.EndReader{B: t.in, Fail: t.fail}
	var values []string
	var rng *cursorio.TextOffsetRange
	var doc *cursorio.TextOffset
	var bo int64
	var rest cursorio.DecodedRuneList
	var err error
	init := cursorOff(t.init)
	if t.pkg == "turtle" {
		dc := turtle.DecoderConfig{}
		if t.capture {
			dc = dc.SetCaptureTextOffsets(true).SetInitialTextOffset(init)
		}
		var o turtle.VerifTokenOffsets
		values, o, err = turtle.VerifProduceOffsets(t.kind, rd, dc)
		rng, doc, bo, rest = o.Range, o.Doc, o.BufferByteOffset, o.Rest
	} else {
		dc := trig.DecoderConfig{}
		if t.capture {
			dc = dc.SetCaptureTextOffsets(true).SetInitialTextOffset(init)
		}
		var o trig.VerifTokenOffsets
		values, o, err = trig.VerifProduceOffsets(t.kind, rd, dc)
		rng, doc, bo, rest = o.Range, o.Doc, o.BufferByteOffset, o.Rest
	}
	if err != nil {
		k, e1, e2 := errOffsets(err)
		es := "E-"
		switch k {
		case "-":
		case "b":
			es = "Eb" + strconv.FormatInt(e1.b, 10)
		case "t":
			es = "Et" + showOffM(e1, cols)
		case "r":
			es = "Er" + showOffM(e1, cols) + "-" + showOffM(e2, cols)
		default:
			es = "E" + k
		}
		return vh.ErrClass(err) + " " + es
	}
	vs := make([]string, len(values))
	for i, v := range values {
		if t.kind == "numeric" && i == 0 {
			vs[i] = v
		} else {
			vs[i] = vh.XS(v)
		}
	}
	var rr []rune
	for _, r := range rest {
		rr = append(rr, r.Rune)
	}
	rs := "-"
	if rng != nil {
		rs = showOffM(toOff(rng.From), cols) + "-" + showOffM(toOff(rng.Until), cols)
	}
	ds := "-"
	if doc != nil {
		ds = showOffM(toOff(*doc), cols)
	}
	return "ok " + strings.Join(vs, ",") + " " + vh.XS(string(rr)) + " " + rs + " " + ds + " " + strconv.FormatInt(bo, 10)
}

// tokInputs: token texts for a kind, with something after them.
func tokInputs(g *tgen, kind string) string {
	r := g.r
	tail := vh.Pick(r, []string{"", " ", " .", ".", ";", ",", "\n", "\r\n", "\t", "\"", "'", "<", ">", ":", "x", "0", ".5", "-", "@", "^^", "\\", "é", " ", ")", "]", "#c", ". x", ".. ", "\xff"})
	switch kind {
	case "iriref":
		return g.iriref() + tail
	case "string":
		if r.Chance(25) {
			return vh.Pick(r, []string{"\"\"", "''", "\"\"\"\"\"\"", "''''''", "\"\"\"\"", "'''", "\"\"\"a\"\"b\"\"\"", "'''a''b''''"}) + tail
		}
		return g.str() + tail
	case "pname_ns":
		return vh.Pick(r, []string{":", "ex:", "p:", "foo.bar:", "é:", "a.:", "a..b:", "ex", "ex.", "e x:", "P-1:", "中文:", "x\U00010000:", "a.b.c:"}) + tail
	case "pname":
		g.prefixes = []string{"", "ex", "p", "foo.bar", "é"}
		return g.pname() + tail
	case "bnode":
		if r.Chance(20) {
			return vh.Pick(r, []string{"_", "_:", "_x", "_:.", "_:-", "_:a.", "_:a..", "_:a.-", "_:a-.", "_:0", "_:é.é", "__"}) + tail
		}
		return g.bnode() + tail
	case "langtag":
		if r.Chance(25) {
			return vh.Pick(r, []string{"@", "@-", "@en-", "@en--a", "@1", "@en-1", "@e1", "@EN-us-x-y-0", "@a-"}) + tail
		}
		return "@" + r.LangTag() + tail
	default:
		return vh.Pick(r, []string{"1", "-5", "+0", "007", "1.5", "-.5", ".5", "1e3", "1.E0", "-1.5e-7", "1E+2", ".1e1", "1.", "-.", "+", "-", ".", "1e", "1e+", "1e-x", "..", "1..2", "1.e", "e1", "+.e1", "12345678901234567890.", "1.5.", "1.5e3."}) + tail
	}
}

func genTokCases(g *vh.Rng, n int) []tokCase {
	tg := &tgen{r: g}
	var cs []tokCase
	mk := func(kind string, in []byte) {
		t := tokCase{pkg: vh.Pick(g, []string{"turtle", "trig"}), kind: kind, fail: g.Chance(20), capture: !g.Chance(12), in: in}
		if t.capture && g.Chance(50) {
			t.init = off{int64(g.Intn(2000)), int64(g.Intn(60)), int64(g.Intn(90))}
		}
		cs = append(cs, t)
	}
	hot := []byte("<>\"'\\ \t\r\n._:@^#-+uU0aFeE%;,\x00\x7f\xc3\xa9\xf0\x9f")
	for len(cs) < n {
		kind := vh.Pick(g, tokKinds)
		in := []byte(tokInputs(tg, kind))
		mk(kind, in)
		mk(kind, g.Mutate(in, hot))
		if len(in) > 0 {
			mk(kind, in[:g.Intn(len(in))])
		}
		// the wrong producer on a token of another kind (first-rune rejections)
		if g.Chance(10) {
			mk(vh.Pick(g, tokKinds), in)
		}
	}
	return cs
}

var tokCorner = []struct{ kind, in string }{
	{"string", "\"\" ."}, {"string", "\"\""}, {"string", "''x"}, {"string", "\"\"\"\"\"\"x"}, {"string", "\"a\\"}, {"string", "\"a\\u00"}, {"string", "\"a\\x"}, {"string", "\"\"\"a\"\""}, {"string", "\"\"\"a\""},
	{"iriref", "<a\\"}, {"iriref", "<a\\u00g0>"}, {"iriref", "<a b>"}, {"iriref", "<"}, {"iriref", "<é\U0001F600>x"}, {"iriref", "<a\\U00110000>"},
	{"bnode", "_:a.b. x"}, {"bnode", "_:a"}, {"bnode", "_:a."}, {"bnode", "_"}, {"bnode", "_:"}, {"bnode", "_x"}, {"bnode", "_:a.-."},
	{"langtag", "@en"}, {"langtag", "@en-"}, {"langtag", "@"}, {"langtag", "@en-US x"}, {"langtag", "@en--x"},
	{"numeric", "1."}, {"numeric", "-."}, {"numeric", "1.5e"}, {"numeric", "1.5e+"}, {"numeric", ".5x"}, {"numeric", "+"},
	{"pname_ns", "ex"}, {"pname_ns", "ex."}, {"pname_ns", "a.. "}, {"pname_ns", "a. "}, {"pname_ns", ":"}, {"pname_ns", "é:x"},
	{"pname", "ex:a\\.b. "}, {"pname", "ex:a.b."}, {"pname", "ex:%4"}, {"pname", "ex:%4g"}, {"pname", "ex:\\"}, {"pname", "ex:\\x"}, {"pname", ":"}, {"pname", "ex:"}, {"pname", "ex:. "}, {"pname", "ex:a.. "},
}

func runTokCases(rep *vh.Report, cs []tokCase, bnLabelOnlyKnown bool) (compared, failures int, err error) {
	lines := make([]string, len(cs))
	gos := make([]string, len(cs))
	for i, t := range cs {
		lines[i] = t.line(false)
		gos[i] = goTok(t)
	}
	res, err := vh.Driver{Path: *driver}.RunParallel(lines)
	if err != nil {
		return 0, 0, err
	}
	var retry []int
	for i := range cs {
		compared++
		rep.Count("tok:" + cs[i].kind)
		rep.Count("tok-outcome:" + strings.Fields(gos[i] + " x")[0])
		rep.Eval(lines[i], strings.HasPrefix(gos[i], "ok ") || !strings.HasSuffix(gos[i], " E-"))
		if res[i] != gos[i] {
			if cs[i].kind == "bnode" && strings.HasPrefix(gos[i], "ok ") {
				retry = append(retry, i)
				continue
			}
			rep.Add(vh.Case{Kind: "disagreement", Op: lines[i], Go: gos[i], Model: res[i], Detail: "token producer " + cs[i].pkg + "/" + cs[i].kind + " on " + strconv.Quote(string(cs[i].in))})
			failures++
		}
	}
	// the unrepaired blank node range (label without `_:`): accepted as the known finding when listed
	if len(retry) > 0 {
		l2 := make([]string, len(retry))
		for k, i := range retry {
			l2[k] = cs[i].line(true)
		}
		r2, err := vh.Driver{Path: *driver}.Run(l2)
		if err != nil {
			return compared, failures, err
		}
		for k, i := range retry {
			if r2[k] == gos[i] && bnLabelOnlyKnown {
				rep.Count("known:tok-bnode-label-only")
				continue
			}
			rep.Add(vh.Case{Kind: "disagreement", Op: lines[i], Go: gos[i], Model: res[i], Detail: "token producer " + cs[i].pkg + "/bnode on " + strconv.Quote(string(cs[i].in))})
			failures++
		}
	}
	return
}

func bnLabelOnlyListed() bool {
	fs, err := vh.LoadFindings(*findings)
	if err != nil {
		return false
	}
	for _, f := range fs {
		if f.Property == "C16" && f.Status == "known" && strings.HasPrefix(f.Predicate, "slice|") && strings.HasSuffix(f.Predicate, "|bnode-label-only") {
			return true
		}
	}
	return false
}

func runTok(rep *vh.Report, g *vh.Rng) (compared, failures int, err error) {
	n := 60000 * *scale
	if *tier == "thorough" {
		n = 1500000 * *scale
	}
	var cs []tokCase
	for _, c := range tokCorner {
		for _, pkg := range []string{"turtle", "trig"} {
			for _, fail := range []bool{false, true} {
				cs = append(cs, tokCase{pkg: pkg, kind: c.kind, fail: fail, capture: true, in: []byte(c.in)})
				cs = append(cs, tokCase{pkg: pkg, kind: c.kind, fail: fail, capture: true, init: off{100, 7, 3}, in: []byte(c.in)})
				cs = append(cs, tokCase{pkg: pkg, kind: c.kind, fail: fail, capture: false, in: []byte(c.in)})
				// every prefix
				for k := 0; k < len(c.in); k++ {
					cs = append(cs, tokCase{pkg: pkg, kind: c.kind, fail: fail, capture: true, in: []byte(c.in[:k])})
				}
			}
		}
	}
	// tie of the Simple predicate (harness copy in common.go vs TW.simpleRune): every class boundary
	{
		var ls, want []string
		for _, r := range []rune{0x08, 0x09, 0x0a, 0x0b, 0x0d, 0x1f, 0x20, 0x7e, 0x7f, 0x9f, 0xa0, 0x2ff, 0x300, 0x4dff, 0x4e00, 0x9fff, 0xa000, 0xfffc, 0xfffd, 0xfffe, 0xffff, 0x10000, 0x100ff, 0x10100, 0x1f5ff, 0x1f600, 0x1f64f, 0x1f650} {
			ls = append(ls, "nqo.simple "+vh.XS(string(r)))
			want = append(want, fmt.Sprint(simpleRune(r)))
		}
		for i := 0; i < 200; i++ {
			d := genTtl("ttl", g)
			ls = append(ls, "nqo.simple "+vh.X(d))
			want = append(want, fmt.Sprint(simpleDoc(d)))
		}
		res, err := vh.Driver{Path: *driver}.Run(ls)
		if err != nil {
			return 0, 0, err
		}
		for i := range res {
			compared++
			rep.Count("op:simple")
			if res[i] != want[i] {
				rep.Add(vh.Case{Kind: "disagreement", Op: ls[i], Go: want[i], Model: res[i], Detail: "Simple predicate: harness copy differs from the model"})
				failures++
			}
		}
	}
	listed := bnLabelOnlyListed()
	for done := 0; done < n; {
		k := n - done
		if k > 200000 {
			k = 200000
		}
		cs = append(cs, genTokCases(g, k)...)
		c, f, err := runTokCases(rep, cs, listed)
		compared += c
		failures += f
		if err != nil {
			return compared, failures, err
		}
		done += k
		cs = nil
	}
	return
}

func runTokLines(rep *vh.Report, lines []string) (compared, failures int) {
	var cs []tokCase
	for _, l := range lines {
		if t, ok := parseTokLine(l); ok {
			cs = append(cs, t)
		}
	}
	c, f, err := runTokCases(rep, cs, bnLabelOnlyListed())
	if err != nil {
		rep.Add(vh.Case{Kind: "disagreement", Detail: "driver: " + err.Error()})
		f++
	}
	return c, f
}

// tokLineToDoc: a token line that disagreed, as a document for the oracle (search mode): the token
// is placed as the object (or subject, verb …) of a one-statement document.
func tokLineToDoc(l string) (*job, bool) {
	t, ok := parseTokLine(l)
	if !ok {
		return nil, false
	}
	format := "ttl"
	if t.pkg == "trig" {
		format = "trig"
	}
	doc := "@prefix ex: <http://e/> . @prefix : <http://d/> . @prefix p: <http://p/> .\n"
	switch t.kind {
	case "langtag":
		doc += "<a:s> <a:p> \"x\"" + string(t.in) + "\n<a:s> <a:p> <a:o> ."
	case "pname_ns":
		doc = "@prefix " + string(t.in) + " <http://e/> .\n<a:s> <a:p> <a:o> ."
	default:
		doc += "<a:s> <a:p> " + string(t.in) + "\n<a:s> <a:p> <a:o> ."
	}
	return &job{kind: "hint", format: format, base: defaultBase, fail: t.fail, init: off{100, 7, 3}, doc: []byte(doc)}, true
}
