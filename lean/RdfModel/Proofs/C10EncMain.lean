/-
  C10 helper lemmas, part 10 (encoder direction): assembly — the natural hypotheses imply the certificate.
-/
import RdfModel.Proofs.C10EncRoot
namespace RdfModel.Proofs.C10
open RdfModel RdfModel.Desc RdfModel.JL RdfModel.JLEnc RdfModel.C10

variable {β : Type} [DecidableEq β]

/-! ### facts about the dataset from the hypotheses -/

theorem initial_ctx_empty (mode11 : Bool) (base : Option Str) (c : Ctx)
    (h : processCtxObj (Ctx.initial mode11 base) [] = some c) : c = Ctx.initial mode11 base := by
  simp [processCtxObj, getKey, Ctx.initial] at h
  exact h.symm

section Facts
variable (cfg : Cfg β) (d : List (DQuad β)) (ord ord2 : List (Term β))

theorem iriG_of (hctx : ctxOK cfg d ord ord2 = true) (hloc : locOK cfg d ord ord2 = true)
    {q : DQuad β} (hq : q ∈ d) {v : Str} (hv : v ∈ quadIris q) (habs : absIri v = true) :
    IriG (mkEnc cfg) (usedPrefixes cfg d ord ord2) ((declared cfg d ord ord2).map (·.1)) v := by
  simp only [ctxOK, Bool.and_eq_true, List.all_eq_true] at hctx
  simp only [locOK, List.all_eq_true, Bool.and_eq_true] at hloc
  have hcomp : compactOK (mkEnc cfg) v = true := (hloc q hq).1 v hv
  refine ⟨habs, hctx.2 q hq v hv, hcomp, ?_⟩
  intro p r hcp hpu
  obtain ⟨ns, hns, _⟩ := compactOK_spec hcomp hcp
  have hm : (p, ns) ∈ declared cfg d ord ord2 := by
    unfold declared; exact mem_declOf.2 ⟨hpu, hns⟩
  exact (hctx.1.2 (p, ns) hm).1.1.1

theorem relOK_of (hloc : locOK cfg d ord ord2 = true) {q : DQuad β} (hq : q ∈ d) {v : Str} (hv : v ∈ docIris q) :
    ∀ b, cfg.base = some b → relOK (mkEnc cfg) ((declared cfg d ord ord2).map (·.1)) b v = true := by
  intro b hb
  simp only [locOK, List.all_eq_true, Bool.and_eq_true] at hloc
  have := (hloc q hq).2
  rw [hb] at this
  simp only [List.all_eq_true] at this
  exact this v hv

theorem pok_of (hwf : WFDataset d) (hnn : noNativeTyped d = true) (hctx : ctxOK cfg d ord ord2 = true)
    (hloc : locOK cfg d ord ord2 = true) {q : DQuad β} (hq : q ∈ d) :
    POk (mkEnc cfg) (usedPrefixes cfg d ord ord2) ((declared cfg d ord ord2).map (·.1)) cfg.base (q.t.p, q.t.o) ∧
    wfNode q.t.s = true ∧
    (∀ v, q.t.s = .iri v →
      IriG (mkEnc cfg) (usedPrefixes cfg d ord ord2) ((declared cfg d ord ord2).map (·.1)) v ∧
      ∀ b, cfg.base = some b → relOK (mkEnc cfg) ((declared cfg d ord ord2).map (·.1)) b v = true) := by
  have hw := hwf q hq
  simp only [wfQuad, Bool.and_eq_true] at hw
  obtain ⟨⟨⟨hs, hp⟩, ho⟩, _⟩ := hw
  have hn := (List.all_eq_true.1 hnn) q hq
  refine ⟨⟨iriG_of cfg d ord ord2 hctx hloc hq (by simp [quadIris]) hp, ho, ?_, ?_⟩, hs, ?_⟩
  · intro v hv
    simp only at hv
    have habs : absIri v = true := by rw [hv] at ho; simpa [wfObj] using ho
    exact ⟨iriG_of cfg d ord ord2 hctx hloc hq (by simp [quadIris, hv, termIris]) habs,
      relOK_of cfg d ord ord2 hloc hq (by simp [docIris, hv])⟩
  · intro lex dt lang hv
    simp only at hv
    rw [hv] at hn ho
    simp only [Bool.not_eq_true'] at hn
    refine ⟨hn, iriG_of cfg d ord ord2 hctx hloc hq (by simp [quadIris, hv, termIris]) ?_⟩
    cases lang with
    | none => simpa [wfObj] using ho
    | some l =>
      simp only [wfObj, Bool.and_eq_true, beq_iff_eq] at ho
      rw [ho.1]; decide
  · intro v hv
    have habs : absIri v = true := by rw [hv] at hs; simpa [wfNode] using hs
    exact ⟨iriG_of cfg d ord ord2 hctx hloc hq (by simp [quadIris, hv, termIris]) habs,
      relOK_of cfg d ord ord2 hloc hq (by simp [docIris, hv, termIris])⟩

omit [DecidableEq β] in
theorem dummy : True := trivial

/-- a statement of the default graph's builder is a quad of the dataset -/
theorem stmt_mem (s : Term β) (po : PO β) (h : po ∈ ((dbuild d).builder none).stmts s) :
    (⟨⟨s, po.1, po.2⟩, none⟩ : DQuad β) ∈ d := by
  rw [C17.builder_dbuild, C17.stmts_build] at h
  obtain ⟨t, ht, rfl⟩ := List.mem_map.1 h
  simp only [List.mem_filter, decide_eq_true_eq] at ht
  obtain ⟨q, hq, hg, rfl⟩ := C17.mem_graphTriples.1 ht.1
  obtain ⟨⟨qs, qp, qo⟩, qg⟩ := q
  simp only at hg ht
  subst hg
  rw [← ht.2]
  simpa [C17.poOf] using hq

theorem subject_mem (s : Term β) (h : s ∈ defaultOrd d) : ∃ q ∈ d, q.g = none ∧ q.t.s = s := by
  unfold defaultOrd at h
  rw [C17.builder_dbuild, C17.mem_subjects_build] at h
  obtain ⟨t, ht, rfl⟩ := h
  obtain ⟨q, hq, hg, rfl⟩ := C17.mem_graphTriples.1 ht
  exact ⟨q, hq, hg, rfl⟩

end Facts

/-! ### the shape of the encoder's document -/

theorem encode_form (cfg : Cfg β) (d : List (DQuad β)) (ord ord2 : List (Term β)) (rs : List (Resource β))
    (hexp : (if (dbuild d).graphNames.contains none then
        ((dbuild d).builder none).exportResourcesV Opts.default ord ord2 (d.length + 1) else some []) = some rs) :
    usedPrefixes cfg d ord ord2 = dedupStr (buildRoots (mkEnc cfg) cfg.label ((dbuild d).builder none) rs []).2 ∧
    (∀ ms, (buildRoots (mkEnc cfg) cfg.label ((dbuild d).builder none) rs []).1 = [.obj ms] →
      encode cfg d ord ord2 = some (.obj (ms ++ ctxTail (ctxMs cfg.base (declared cfg d ord ord2))))) ∧
    ((∀ ms, (buildRoots (mkEnc cfg) cfg.label ((dbuild d).builder none) rs []).1 ≠ [.obj ms]) →
      encode cfg d ord ord2 = some (.obj ((kGraph, .arr (buildRoots (mkEnc cfg) cfg.label ((dbuild d).builder none) rs []).1) ::
        ctxTail (ctxMs cfg.base (declared cfg d ord ord2))))) := by
  have hu : usedPrefixes cfg d ord ord2 = dedupStr (buildRoots (mkEnc cfg) cfg.label ((dbuild d).builder none) rs []).2 := by
    unfold usedPrefixes; simp only []; rw [hexp]
  have hd : declared cfg d ord ord2 = (dedupStr (buildRoots (mkEnc cfg) cfg.label ((dbuild d).builder none) rs []).2).filterMap
      fun p => (ctxEntry (mkEnc cfg) p).map fun ns => (p, ns) := by
    unfold declared; rw [hu]
  refine ⟨hu, ?_, ?_⟩
  · intro ms hms
    unfold encode
    simp only []
    rw [hexp]
    simp only [hms]
    rw [ctxMembers_eq, ← hd]
    cases hcb : cfg.base <;> simp only [ctxMs, ctxTail] <;> rfl
  · intro hms
    unfold encode
    simp only []
    rw [hexp]
    simp only []
    rw [ctxMembers_eq, ← hd]
    cases hcb : cfg.base with
    | none =>
      simp only [ctxMs, ctxTail]
      rfl
    | some b =>
      simp only [ctxMs, ctxTail]
      rfl


/-! ### the natural hypotheses imply the certificate -/

theorem encCert_holds (mode11 : Bool) (base : Option Str) (cfg : Cfg β) (d : List (DQuad β)) (ord ord2 : List (Term β))
    (hne : ∀ b, cfg.label b ≠ []) (hord : ∀ s ∈ ord, s ∈ defaultOrd d) (hord2 : ∀ s ∈ ord2, s ∈ defaultOrd d)
    (hwf : WFDataset d) (hnn : noNativeTyped d = true) (hctx : ctxOK cfg d ord ord2 = true)
    (hloc : locOK cfg d ord ord2 = true) (hst : structOK cfg d ord ord2 = true) :
    encCert mode11 base cfg d ord ord2 = true := by
  -- the forest
  unfold structOK at hst
  cases hF : encForest cfg d ord ord2 with
  | none => simp [hF] at hst
  | some F =>
    simp only [hF] at hst
    -- the context
    have hctx' := hctx
    simp only [ctxOK, Bool.and_eq_true, List.all_eq_true] at hctx'
    obtain ⟨⟨hb, hdl⟩, _⟩ := hctx'
    have hnodup : (usedPrefixes cfg d ord ord2).Nodup := by
      unfold usedPrefixes; simp only []; split
      · exact List.nodup_nil
      · exact dedupStr_nodup _
    have hdecl : DeclOK cfg.base (declared cfg d ord ord2) :=
      { base := by intro b hbs; rw [hbs] at hb; exact hb
        name := fun e he => (hdl e he).1.1.1
        abs := fun e he => (hdl e he).1.1.2
        gd := fun e he => (hdl e he).1.2
        sch := fun e he => (hdl e he).2
        nodup := declOf_names_nodup _ _ hnodup }
    obtain ⟨c, hproc, _, hc⟩ := goodCtx_of_decl (mkEnc cfg) cfg.base (usedPrefixes cfg d ord ord2) hnodup
      (Ctx.initial mode11 base) rfl rfl rfl hdecl
    have hproc' : processCtxObj (Ctx.initial mode11 base) (ctxMs cfg.base (declared cfg d ord ord2)) = some c := hproc
    have hcr : CtxRead (Ctx.initial mode11 base) c (ctxMs cfg.base (declared cfg d ord ord2)) :=
      ⟨hproc', fun he => by rw [he] at hproc'; exact initial_ctx_empty mode11 base c hproc', ctxMs_wf _ _ hdecl⟩
    have hbase : cfg.base.isSome = (mkEnc cfg).base.isSome := by simp [mkEnc]
    -- the two cases of `encForest`
    have hF0 := hF
    have hfin : ∀ doc, encode cfg d ord ord2 = some doc →
        toRdf mode11 base doc = some (denForest cfg.label F (encStart F)).1 →
        encCert mode11 base cfg d ord ord2 = true := by
      intro doc he ht
      unfold encCert
      simp only [he, hF0, hst, ht, Bool.true_and, decide_true]
    unfold encForest at hF
    simp only [] at hF
    by_cases hdg : (dbuild d).graphNames.contains none = true
    · simp only [hdg, Bool.not_true, Bool.false_eq_true, if_false] at hF
      cases h1 : foldRootsT ((dbuild d).builder none) (d.length + 1) (((dbuild d).builder none).pick1 Opts.default) ord [] with
      | none => simp [h1] at hF
      | some r1 =>
        obtain ⟨rs1, V1⟩ := r1
        simp only [h1] at hF
        cases h2 : foldRootsT ((dbuild d).builder none) (d.length + 1) (((dbuild d).builder none).pick2 Opts.default) ord2 V1 with
        | none => simp [h2] at hF
        | some r2 =>
          obtain ⟨rs2, V2⟩ := r2
          simp only [h2, Option.some.injEq] at hF
          -- the export
          have hexp : (if (dbuild d).graphNames.contains none then
              ((dbuild d).builder none).exportResourcesV Opts.default ord ord2 (d.length + 1) else some []) =
              some ((rs1 ++ rs2).map (toRes ((dbuild d).builder none))) := by
            simp only [hdg, if_true, Builder.exportResourcesV,
              foldRootsT_untag _ _ _ _ _ _ _ h1, foldRootsT_untag _ _ _ _ _ _ _ h2, List.map_append]
          obtain ⟨hu, hsingle, hmulti⟩ := encode_form cfg d ord ord2 _ hexp
          -- facts about the roots
          have hfacts : ∀ r ∈ rs1 ++ rs2, RootFacts (mkEnc cfg) (usedPrefixes cfg d ord ord2)
              ((declared cfg d ord ord2).map (·.1)) cfg.base r := by
            intro r hr
            have hpos : r.1 ∈ defaultOrd d ∧ ∀ po ∈ tposL r.2, ∃ s', po ∈ ((dbuild d).builder none).stmts s' := by
              rcases List.mem_append.1 hr with hr | hr
              · obtain ⟨a, b⟩ := foldRootsT_pos _ _ _ _ _ _ _ h1 r hr; exact ⟨hord _ a, b⟩
              · obtain ⟨a, b⟩ := foldRootsT_pos _ _ _ _ _ _ _ h2 r hr; exact ⟨hord2 _ a, b⟩
            obtain ⟨q, hq, _, hqs⟩ := subject_mem d r.1 hpos.1
            obtain ⟨_, hnode, hsubj⟩ := pok_of cfg d ord ord2 hwf hnn hctx hloc hq
            rw [hqs] at hnode hsubj
            refine ⟨hnode, hsubj, ?_⟩
            intro po hpo
            obtain ⟨s', hs'⟩ := hpos.2 po hpo
            exact (pok_of cfg d ord ord2 hwf hnn hctx hloc (stmt_mem d s' po hs')).1
          have hU : ∀ q ∈ (buildRoots (mkEnc cfg) cfg.label ((dbuild d).builder none)
              ((rs1 ++ rs2).map (toRes ((dbuild d).builder none))) []).2, q ∈ usedPrefixes cfg d ord ord2 := by
            intro q hq; rw [hu]; exact dedupStr_mem.2 hq
          have hrel := roots_rel hc hbase hne ((dbuild d).builder none)
            (rootTree (mkEnc cfg) ((dbuild d).builder none))
            (fun r v hv => by simp only [rootTree, hv]) (fun r b hb => by simp only [rootTree, hb])
            (rs1 ++ rs2) [] hU hfacts
          subst hF
          -- by the number of exported resources
          generalize hrs : rs1 ++ rs2 = rs at hexp hsingle hmulti hU hrel hfacts hfin
          cases rs with
          | nil =>
            simp only [List.map_nil, buildRoots] at hrel hmulti
            refine hfin _ (hmulti (by intro ms e; cases e)) ?_
            rw [doc_multi mode11 base _ hcr hrel]
            simp [denForest, denNodes, encStart]
          | cons r rest =>
            cases rest with
            | nil =>
              simp only [List.map_cons, List.map_nil, buildRoots] at hrel hsingle
              cases hrel with
              | cons h1' _ =>
                obtain ⟨ms, id, G, e, rest'⟩ := h1'
                have h1'' : RootRel cfg.label c (.obj ms) (rootTree (mkEnc cfg) ((dbuild d).builder none) r) := by
                  rw [← e]; exact ⟨ms, id, G, e, rest'⟩
                refine hfin _ (hsingle ms (by rw [e])) ?_
                rw [doc_single mode11 base _ hcr h1'']
                simp [denForest, denNodes, encStart]
            | cons r2 rest2 =>
              have hne2 : ∀ ms, (buildRoots (mkEnc cfg) cfg.label ((dbuild d).builder none)
                  ((r :: r2 :: rest2).map (toRes ((dbuild d).builder none))) []).1 ≠ [.obj ms] := by
                intro ms e
                have := congrArg List.length e
                simp [buildRoots] at this
              refine hfin _ (hmulti hne2) ?_
              rw [doc_multi mode11 base _ hcr hrel]
              simp [denForest, denNodes, encStart]
    · simp only [hdg, Bool.not_false, if_true, Option.some.injEq] at hF
      subst hF
      have hexp : (if (dbuild d).graphNames.contains none then
          ((dbuild d).builder none).exportResourcesV Opts.default ord ord2 (d.length + 1) else some []) =
          some ([] : List (Resource β)) := by rw [if_neg hdg]
      obtain ⟨hu, hsingle, hmulti⟩ := encode_form cfg d ord ord2 _ hexp
      simp only [buildRoots] at hmulti
      refine hfin _ (hmulti (by intro ms e; cases e)) ?_
      rw [doc_multi mode11 base _ hcr (F2.nil : F2 (RootRel cfg.label c) [] ([] : List (Tree β)))]
      simp [denForest, denNodes, encStart]


end RdfModel.Proofs.C10
