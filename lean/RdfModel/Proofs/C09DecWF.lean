/-
  Helper lemmas for Props/C09Dec.lean, part 2: every statement the decoder model appends is well-formed.
  Invariant: all statements appended so far are well-formed (`OutWF`), every language held by a context is
  non-empty (`LangOK`), every subject held by a frame is an IRI or a blank node (`FrameOK`).
-/
import RdfModel.Props.C09DecDefs
namespace RdfModel.RXD
open RdfModel RdfModel.Desc RdfModel.RX RdfModel.C09Dec

def LangOK (c : Ctx) : Prop := ∀ l, c.lang = some l → l ≠ []
def OutWF (st : St) : Prop := ∀ t ∈ st.out, WFTriple t

/-- postcondition of a piece of straight-line code: the statements stay well-formed (also when it fails) -/
def Res.Sat {α : Type} (x : Res α) (Q : α → St → Prop) : Prop :=
  match x with
  | .ok a st => OutWF st ∧ Q a st
  | .fail _ st => OutWF st
  | .panic => True

def FrameOK : Frame → Prop
  | .rdf ctx => LangOK ctx
  | .props ctx subj _ ret => LangOK ctx ∧ WFSubj subj ∧ (match ret with | .node s => WFSubj s | .resource => True)
  | .pelt ctx nctx subj _ _ _ _ _ _ => LangOK ctx ∧ LangOK nctx ∧ WFSubj subj
  | .lit ctx subj _ _ _ _ => LangOK ctx ∧ WFSubj subj
  | .coll ctx subj _ _ last => LangOK ctx ∧ WFSubj subj ∧ (∀ l, last = some l → WFSubj l)

def StackOK (stk : List Frame) : Prop := ∀ f ∈ stk, FrameOK f

def Step.Sat : Step → Prop
  | .cont stk st => StackOK stk ∧ OutWF st
  | .fail _ st => OutWF st
  | .panic => True

variable {P : Params}

/-! ### constants -/

theorem xsd_ne_lang : xsdString ≠ rdfLangString := by decide
theorem xsd_ne_dir : xsdString ≠ rdfDirLangString := by decide
theorem lang_ne_dir : rdfLangString ≠ rdfDirLangString := by decide
theorem xmlLit_ne_lang : rdfXMLLiteral ≠ rdfLangString := by decide
theorem xmlLit_ne_dir : rdfXMLLiteral ≠ rdfDirLangString := by decide

/-! ### basic facts -/

theorem wfObj_of_wfSubj {t : Term BN} (h : WFSubj t) : WFObj t := by
  cases t <;> simp_all [WFSubj, WFObj]

theorem wfSubj_iri (v : Str) : WFSubj (.iri v : Term BN) := by simp [WFSubj]
theorem wfSubj_bnode (b : BN) : WFSubj (.bnode b : Term BN) := by simp [WFSubj]
theorem wfObj_iri (v : Str) : WFObj (.iri v : Term BN) := by simp [WFObj]

theorem mkLitCtx_wf {ctx : Ctx} (h : LangOK ctx) (v : Str) : WFObj (mkLitCtx v ctx) := by
  unfold mkLitCtx mkLit
  cases hl : ctx.lang with
  | none => simp [WFObj, xsd_ne_lang, xsd_ne_dir]
  | some l => simp [WFObj, lang_ne_dir, h l hl]

theorem outWF_emit {st : St} {t : T} (h : OutWF st) (ht : WFTriple t) : OutWF (st.emit t) := by
  intro x hx
  simp only [St.emit, List.mem_cons] at hx
  rcases hx with rfl | hx
  · exact ht
  · exact h x hx

theorem outWF_fresh {st : St} (h : OutWF st) : OutWF st.fresh.2 := h
theorem wfSubj_fresh (st : St) : WFSubj st.fresh.1 := by simp [St.fresh, WFSubj]

theorem asSubject_some {o s : Term BN} (h : asSubject o = some s) : WFSubj s := by
  cases o <;> simp_all [asSubject, WFSubj] <;> subst h <;> trivial

/-! ### processCommonAttr -/

theorem commonLoop_sat (as : List Attr) (ctx : Ctx) (ra oa : List Attr) (st : St) (hc : LangOK ctx) (ho : OutWF st) :
    (commonLoop P as ctx ra oa st).Sat (fun c _ => LangOK c.ctx) := by
  induction as generalizing ctx ra oa st with
  | nil => exact ⟨ho, hc⟩
  | cons a rest ih =>
    unfold commonLoop
    split
    · exact ih _ _ _ _ hc ho
    · split
      · split
        · refine ih _ _ _ _ ?_ ho
          intro l hl
          simp only at hl
          split at hl
          · simp at hl
          · simp only [Option.some.injEq] at hl; subst hl; assumption
        · split
          · cases hr : resolveIRI P ctx a.val with
            | panic => trivial
            | ok b =>
              simp only []
              split
              · exact ih _ _ _ _ hc ho
              · exact ho
          · exact ih _ _ _ _ hc ho
      · split
        · exact ih _ _ _ _ hc ho
        · split
          · exact ih _ _ _ _ hc ho
          · exact ih _ _ _ _ hc ho

theorem processCommonAttr_sat (ctx : Ctx) (as : List Attr) (st : St) (hc : LangOK ctx) (ho : OutWF st) :
    (processCommonAttr P ctx as st).Sat (fun c _ => LangOK c.ctx) := commonLoop_sat _ _ _ _ _ hc ho

/-! ### reification -/

theorem addReify_sat (ctx : Ctx) (id : Str) (i : Nat) (st : St) (ho : OutWF st) :
    (addReify P ctx id i st).Sat (fun _ _ => True) := by
  unfold addReify
  cases hi : st.out[i]? with
  | none => trivial
  | some t =>
    simp only []
    have ht : WFTriple t := ho t (List.mem_of_getElem? hi)
    cases hr : resolveIRI P ctx (cHash :: id) with
    | panic => trivial
    | ok idr =>
      refine ⟨?_, trivial⟩
      intro x hx
      simp only [List.mem_cons] at hx
      rcases hx with rfl | rfl | rfl | rfl | hx
      · exact ⟨wfSubj_iri _, ht.2⟩
      · exact ⟨wfSubj_iri _, wfObj_iri _⟩
      · exact ⟨wfSubj_iri _, wfObj_of_wfSubj ht.1⟩
      · exact ⟨wfSubj_iri _, wfObj_iri _⟩
      · exact ho x hx

theorem optReify_sat (ctx : Ctx) (id : Option Str) (i : Nat) (st : St) (ho : OutWF st) :
    (optReify P ctx id i st).Sat (fun _ _ => True) := by
  cases id with
  | none => exact ⟨ho, trivial⟩
  | some v => exact addReify_sat ctx v i st ho

theorem reifyEachID_sat (ctx : Ctx) (as : List Attr) (st : St) (ho : OutWF st) :
    (reifyEachID P ctx as st).Sat (fun _ _ => True) := by
  induction as generalizing st with
  | nil => exact ⟨ho, trivial⟩
  | cons a rest ih =>
    unfold reifyEachID
    split
    · have h1 := addReify_sat (P := P) ctx a.val 0 st ho
      cases hr : addReify P ctx a.val 0 st with
      | panic => trivial
      | fail e st1 => rw [hr] at h1; exact h1
      | ok u st1 => rw [hr] at h1; exact ih st1 h1.1
    · exact ih st ho

/-! ### processNodeElt -/

theorem subjLoop_sat (ctx : Ctx) (as : List Attr) (s : Option (Term BN)) (n : Nat) (st : St)
    (hs : ∀ x, s = some x → WFSubj x) (ho : OutWF st) :
    (subjLoop P ctx as s n st).Sat (fun r _ => ∀ x, r.1 = some x → WFSubj x) := by
  induction as generalizing s n st with
  | nil => exact ⟨ho, hs⟩
  | cons a rest ih =>
    unfold subjLoop
    split
    · split
      · exact ho
      · cases hr : resolveIRI P ctx (cHash :: a.val) with
        | panic => trivial
        | ok r =>
          simp only []
          split
          · exact ho
          · exact ih _ _ _ (by intro x hx; simp only [Option.some.injEq] at hx; subst hx; exact wfSubj_iri _) ho
    · split
      · split
        · exact ho
        · exact ih _ _ _ (by intro x hx; simp only [Option.some.injEq] at hx; subst hx; exact wfSubj_bnode _) ho
      · split
        · cases hr : resolveIRI P ctx a.val with
          | panic => trivial
          | ok r =>
            exact ih _ _ _ (by intro x hx; simp only [Option.some.injEq] at hx; subst hx; exact wfSubj_iri _) ho
        · exact ih _ _ _ hs ho

theorem nodeRdfLoop_sat (ctx : Ctx) (s : Term BN) (as extra : List Attr) (st : St) (hs : WFSubj s) (ho : OutWF st) :
    (nodeRdfLoop P ctx s as extra st).Sat (fun _ _ => True) := by
  induction as generalizing extra st with
  | nil => exact ⟨ho, trivial⟩
  | cons a rest ih =>
    unfold nodeRdfLoop
    split
    · exact ih _ _ ho
    · split
      · cases hr : resolveIRI P ctx a.val with
        | panic => trivial
        | ok r => exact ih _ _ (outWF_emit ho ⟨hs, wfObj_iri _⟩)
      · split
        · exact ho
        · exact ih _ _ ho

theorem litAttrLoop_wf (ctx : Ctx) (s : Term BN) (as : List Attr) (st : St) (hc : LangOK ctx) (hs : WFSubj s)
    (ho : OutWF st) : OutWF (litAttrLoop ctx s as st) := by
  induction as generalizing st with
  | nil => exact ho
  | cons a rest ih => exact ih _ (outWF_emit ho ⟨hs, mkLitCtx_wf hc _⟩)

theorem subjOrFresh_wf (s? : Option (Term BN)) (st : St) (hs : ∀ x, s? = some x → WFSubj x) (ho : OutWF st) :
    WFSubj (subjOrFresh s? st).1 ∧ OutWF (subjOrFresh s? st).2 := by
  cases s? with
  | none => exact ⟨wfSubj_fresh st, ho⟩
  | some x => exact ⟨hs x rfl, ho⟩

theorem nodeEntry_sat (ctx : Ctx) (ns name : Str) (as : List Attr) (st : St) (hc : LangOK ctx) (ho : OutWF st) :
    (nodeEntry P ctx ns name as st).Sat (fun f _ => FrameOK f) := by
  unfold nodeEntry
  have h1 := processCommonAttr_sat (P := P) ctx as st hc ho
  cases hca : processCommonAttr P ctx as st with
  | panic => trivial
  | fail e st1 => rw [hca] at h1; exact h1
  | ok c st1 =>
    rw [hca] at h1
    simp only []
    have h2 := subjLoop_sat (P := P) c.ctx c.rdfAttrs none 0 st1 (by simp) h1.1
    cases hsl : subjLoop P c.ctx c.rdfAttrs none 0 st1 with
    | panic => trivial
    | fail e st2 => rw [hsl] at h2; exact h2
    | ok r st2 =>
      rw [hsl] at h2
      simp only []
      split
      · exact h2.1
      · have h3 := subjOrFresh_wf r.1 st2 h2.2 h2.1
        have h4 : OutWF (if ns = rdfNS ∧ name = n_Description then (subjOrFresh r.1 st2).2
            else (subjOrFresh r.1 st2).2.emit ⟨(subjOrFresh r.1 st2).1, rdfType, .iri (ns ++ name)⟩) := by
          split
          · exact h3.2
          · exact outWF_emit h3.2 ⟨h3.1, wfObj_iri _⟩
        have h5 := nodeRdfLoop_sat (P := P) c.ctx (subjOrFresh r.1 st2).1 c.rdfAttrs [] _ h3.1 h4
        cases hn : nodeRdfLoop P c.ctx (subjOrFresh r.1 st2).1 c.rdfAttrs []
            (if ns = rdfNS ∧ name = n_Description then (subjOrFresh r.1 st2).2
             else (subjOrFresh r.1 st2).2.emit ⟨(subjOrFresh r.1 st2).1, rdfType, .iri (ns ++ name)⟩) with
        | panic => trivial
        | fail e st5 => rw [hn] at h5; exact h5
        | ok extra st5 =>
          rw [hn] at h5
          exact ⟨litAttrLoop_wf _ _ _ _ h1.2 h3.1 h5.1, h1.2, h3.1, h3.1⟩

/-! ### processPropertyElt -/

theorem datatypeLoop_sat (ctx : Ctx) (as : List Attr) (dt : Option Str) (st : St)
    (hd : ∀ d, dt = some d → d ≠ rdfLangString ∧ d ≠ rdfDirLangString) (ho : OutWF st) :
    (datatypeLoop P ctx as dt st).Sat (fun r _ => ∀ d, r = some d → d ≠ rdfLangString ∧ d ≠ rdfDirLangString) := by
  induction as generalizing dt st with
  | nil => exact ⟨ho, hd⟩
  | cons a rest ih =>
    unfold datatypeLoop
    split
    · cases hr : resolveIRI P ctx a.val with
      | panic => trivial
      | ok r =>
        simp only []
        split
        · exact ho
        · rename_i hne
          refine ih _ _ ?_ ho
          intro d hd'
          simp only [Option.some.injEq] at hd'
          subst hd'
          exact ⟨fun h => hne (.inl h), fun h => hne (.inr h)⟩
    · exact ih _ _ hd ho

theorem emptyObject_sat (ctx : Ctx) (i : EInfo) (st : St) (ho : OutWF st) :
    (emptyObject P ctx i st).Sat (fun o _ => WFSubj o) := by
  unfold emptyObject
  cases i.resource with
  | some r =>
    simp only []
    cases hr : resolveIRI P ctx r with
    | panic => trivial
    | ok v => exact ⟨ho, wfSubj_iri _⟩
  | none =>
    simp only []
    cases i.nodeID with
    | some n => exact ⟨ho, wfSubj_bnode _⟩
    | none => exact ⟨ho, wfSubj_fresh st⟩

theorem emptyAttrLoop_sat (ctx : Ctx) (o : Term BN) (as : List Attr) (st : St) (hc : LangOK ctx) (ho : OutWF st) :
    (emptyAttrLoop P ctx o as st).Sat (fun _ _ => True) := by
  induction as generalizing st with
  | nil => exact ⟨ho, trivial⟩
  | cons a rest ih =>
    unfold emptyAttrLoop
    split
    · exact ih _ ho
    · split
      · cases hs : asSubject o with
        | none => trivial
        | some s =>
          simp only []
          cases hr : resolveIRI P ctx a.val with
          | panic => trivial
          | ok r => exact ih _ (outWF_emit ho ⟨asSubject_some hs, wfObj_iri _⟩)
      · split
        · exact ho
        · cases hs : asSubject o with
          | none => trivial
          | some s => exact ih _ (outWF_emit ho ⟨asSubject_some hs, mkLitCtx_wf hc _⟩)

theorem peltEnd_sat (ctx : Ctx) (subj : Term BN) (pred : Str) (as : List Attr) (rdfID : Option Str)
    (found chars : Str) (st : St) (hc : LangOK ctx) (hs : WFSubj subj) (ho : OutWF st) :
    (peltEnd P ctx subj pred as rdfID found chars st).Sat (fun _ _ => True) := by
  unfold peltEnd
  by_cases hf : found ≠ []
  · rw [if_pos hf]; exact ⟨ho, trivial⟩
  · rw [if_neg hf]
    have h1 := processCommonAttr_sat (P := P) ctx as st hc ho
    cases hca : processCommonAttr P ctx as st with
    | panic => split <;> trivial
    | fail e st1 => rw [hca] at h1; split <;> exact h1
    | ok c st1 =>
      rw [hca] at h1
      by_cases hch : chars ≠ []
      · rw [if_pos hch]
        simp only []
        have h2 := datatypeLoop_sat (P := P) c.ctx c.rdfAttrs none st1 (by simp) h1.1
        cases hd : datatypeLoop P c.ctx c.rdfAttrs none st1 with
        | panic => trivial
        | fail e st2 => rw [hd] at h2; exact h2
        | ok dt st2 =>
          rw [hd] at h2
          simp only []
          refine optReify_sat _ _ _ _ (outWF_emit h2.1 ⟨hs, ?_⟩)
          cases dt with
          | none => exact mkLitCtx_wf h1.2 _
          | some d =>
            have := h2.2 d rfl
            simp [WFObj, this.1, this.2]
      · rw [if_neg hch]
        simp only []
        cases he : emptyLoop c.rdfAttrs {} with
        | none => exact h1.1
        | some i =>
          simp only []
          split
          · exact h1.1
          · split
            · exact optReify_sat _ _ _ _ (outWF_emit h1.1 ⟨hs, mkLitCtx_wf h1.2 _⟩)
            · have h3 := emptyObject_sat (P := P) c.ctx i st1 h1.1
              cases heo : emptyObject P c.ctx i st1 with
              | panic => trivial
              | fail e st2 => rw [heo] at h3; exact h3
              | ok o st2 =>
                rw [heo] at h3
                simp only []
                have h4 := emptyAttrLoop_sat (P := P) c.ctx o (c.rdfAttrs ++ c.others) st2 h1.2 h3.1
                cases hl : emptyAttrLoop P c.ctx o (c.rdfAttrs ++ c.others) st2 with
                | panic => trivial
                | fail e st3 => rw [hl] at h4; exact h4
                | ok u st3 =>
                  rw [hl] at h4
                  exact optReify_sat _ _ _ _ (outWF_emit h4.1 ⟨hs, wfObj_of_wfSubj h3.2⟩)

theorem peltEntry_sat (ctx : Ctx) (subj : Term BN) (li : Nat) (ns name : Str) (as : List Attr) (st : St)
    (hc : LangOK ctx) (hs : WFSubj subj) (ho : OutWF st) :
    (peltEntry P ctx subj li ns name as st).Sat (fun r _ => FrameOK r.2) := by
  unfold peltEntry
  cases hi : peltAttrLoop as {} with
  | none => exact ho
  | some i =>
    simp only []
    have h1 := processCommonAttr_sat (P := P) ctx as st hc ho
    split
    · exact ho
    · split
      · cases hca : processCommonAttr P ctx as st with
        | panic => trivial
        | fail e st1 => rw [hca] at h1; exact h1
        | ok c st1 => rw [hca] at h1; exact ⟨h1.1, h1.2, hs⟩
      · split
        · cases hca : processCommonAttr P ctx as st with
          | panic => trivial
          | fail e st1 => rw [hca] at h1; exact h1
          | ok c st1 =>
            rw [hca] at h1
            simp only []
            have h2 := reifyEachID_sat (P := P) c.ctx c.rdfAttrs
                (st1.fresh.2.emit ⟨subj, propPred ns name li, st1.fresh.1⟩)
                (outWF_emit (outWF_fresh h1.1) ⟨hs, wfObj_of_wfSubj (wfSubj_fresh st1)⟩)
            cases hr : reifyEachID P c.ctx c.rdfAttrs
                (st1.fresh.2.emit ⟨subj, propPred ns name li, st1.fresh.1⟩) with
            | panic => trivial
            | fail e st3 => rw [hr] at h2; exact h2
            | ok u st3 => rw [hr] at h2; exact ⟨h2.1, h1.2, wfSubj_fresh st1, trivial⟩
        · split
          · cases hca : processCommonAttr P ctx as st with
            | panic => trivial
            | fail e st1 => rw [hca] at h1; exact h1
            | ok c st1 => rw [hca] at h1; exact ⟨h1.1, h1.2, hs, by simp⟩
          · cases hca : processCommonAttr P ctx as st with
            | panic => trivial
            | fail e st1 => rw [hca] at h1; exact h1
            | ok c st1 => rw [hca] at h1; exact ⟨h1.1, hc, h1.2, hs⟩

/-! ### returns, steps, runs -/

theorem callNode_sat (ctx : Ctx) (ns name : Str) (as : List Attr) (stk : List Frame) (st : St)
    (hc : LangOK ctx) (hk : StackOK stk) (ho : OutWF st) : (callNode P ctx ns name as stk st).Sat := by
  unfold callNode
  have h1 := nodeEntry_sat (P := P) ctx ns name as st hc ho
  cases hn : nodeEntry P ctx ns name as st with
  | panic => trivial
  | fail e st1 => rw [hn] at h1; exact h1
  | ok f st1 =>
    rw [hn] at h1
    refine ⟨?_, h1.1⟩
    intro g hg
    simp only [List.mem_cons] at hg
    rcases hg with rfl | hg
    · exact h1.2
    · exact hk g hg

theorem nodeReturn_sat (s : Term BN) (stk : List Frame) (st : St) (hs : WFSubj s) (hk : StackOK stk) (ho : OutWF st) :
    (nodeReturn P s stk st).Sat := by
  unfold nodeReturn
  split
  · rename_i ctx nctx subj pred attrs rdfID found chars child below
    have hf : FrameOK (.pelt ctx nctx subj pred attrs rdfID found chars child) := hk _ (by simp)
    have hb : StackOK below := fun g hg => hk g (by simp [hg])
    have h1 := optReify_sat (P := P) nctx rdfID 0 (st.emit ⟨subj, pred, s⟩) (outWF_emit ho ⟨hf.2.2, wfObj_of_wfSubj hs⟩)
    cases hr : optReify P nctx rdfID 0 (st.emit ⟨subj, pred, s⟩) with
    | panic => trivial
    | fail e st1 => rw [hr] at h1; exact h1
    | ok u st1 =>
      rw [hr] at h1
      refine ⟨?_, h1.1⟩
      intro g hg
      simp only [List.mem_cons] at hg
      rcases hg with rfl | hg
      · exact hf
      · exact hb g hg
  · rename_i ctx subj pred rdfID last below
    have hf : FrameOK (.coll ctx subj pred rdfID last) := hk _ (by simp)
    have hb : StackOK below := fun g hg => hk g (by simp [hg])
    have hcell : WFSubj st.fresh.1 := wfSubj_fresh st
    have hnew : ∀ stk', stk' = Frame.coll ctx subj pred rdfID (some st.fresh.1) :: below → StackOK stk' := by
      intro stk' h g hg
      subst h
      simp only [List.mem_cons] at hg
      rcases hg with rfl | hg
      · exact ⟨hf.1, hf.2.1, by intro l hl; simp only [Option.some.injEq] at hl; subst hl; exact hcell⟩
      · exact hb g hg
    simp only []
    cases last with
    | none =>
      simp only []
      have h1 := optReify_sat (P := P) ctx rdfID 1
        ((st.fresh.2.emit ⟨subj, pred, st.fresh.1⟩).emit ⟨st.fresh.1, RX.rdfFirst, s⟩)
        (outWF_emit (outWF_emit (outWF_fresh ho) ⟨hf.2.1, wfObj_of_wfSubj hcell⟩) ⟨hcell, wfObj_of_wfSubj hs⟩)
      cases hr : optReify P ctx rdfID 1 ((st.fresh.2.emit ⟨subj, pred, st.fresh.1⟩).emit ⟨st.fresh.1, RX.rdfFirst, s⟩) with
      | panic => trivial
      | fail e st1 => rw [hr] at h1; exact h1
      | ok u st1 => rw [hr] at h1; exact ⟨hnew _ rfl, h1.1⟩
    | some l =>
      exact ⟨hnew _ rfl, outWF_emit (outWF_emit (outWF_fresh ho) ⟨hf.2.2 l rfl, wfObj_of_wfSubj hcell⟩) ⟨hcell, wfObj_of_wfSubj hs⟩⟩
  · exact ⟨hk, ho⟩

theorem stackOK_tail {f : Frame} {below : List Frame} (h : StackOK (f :: below)) : StackOK below :=
  fun g hg => h g (by simp [hg])

theorem stackOK_cons {f : Frame} {below : List Frame} (hf : FrameOK f) (h : StackOK below) : StackOK (f :: below) := by
  intro g hg
  simp only [List.mem_cons] at hg
  rcases hg with rfl | hg
  · exact hf
  · exact h g hg

theorem step_sat (ctx0 : Ctx) (stk : List Frame) (st : St) (tok : Tok) (h0 : LangOK ctx0) (hk : StackOK stk) (ho : OutWF st) :
    (step P ctx0 stk st tok).Sat := by
  cases stk with
  | nil =>
    cases tok with
    | start ns name attrs =>
      simp only [step]
      split
      · have h1 := processCommonAttr_sat (P := P) ctx0 attrs st h0 ho
        cases hc : processCommonAttr P ctx0 attrs st with
        | panic => trivial
        | fail e st1 => rw [hc] at h1; exact h1
        | ok c st1 =>
          rw [hc] at h1
          simp only []
          split
          · exact h1.1
          · exact ⟨stackOK_cons h1.2 hk, h1.1⟩
      · exact callNode_sat _ _ _ _ _ _ h0 hk ho
    | directive s => exact ho
    | end_ ns name => exact ⟨hk, ho⟩
    | chars s => exact ⟨hk, ho⟩
    | comment s => exact ⟨hk, ho⟩
    | procInst a b => exact ⟨hk, ho⟩
  | cons f below =>
    have hf : FrameOK f := hk f (by simp)
    have hb : StackOK below := stackOK_tail hk
    cases f with
    | rdf ctx =>
      cases tok with
      | start ns name attrs =>
        simp only [step]
        split
        · exact ho
        · exact callNode_sat _ _ _ _ _ _ hf hk ho
      | end_ ns name => exact ⟨hb, ho⟩
      | directive s => exact ⟨hk, ho⟩
      | chars s => exact ⟨hk, ho⟩
      | comment s => exact ⟨hk, ho⟩
      | procInst a b => exact ⟨hk, ho⟩
    | props ctx subj li ret =>
      cases tok with
      | start ns name attrs =>
        simp only [step]
        split
        · exact ho
        · have h1 := peltEntry_sat (P := P) ctx subj li ns name attrs st hf.1 hf.2.1 ho
          cases hp : peltEntry P ctx subj li ns name attrs st with
          | panic => trivial
          | fail e st1 => rw [hp] at h1; exact h1
          | ok r st1 =>
            rw [hp] at h1
            exact ⟨stackOK_cons h1.2 (stackOK_cons (f := .props ctx subj r.1 ret) hf hb), h1.1⟩
      | end_ ns name =>
        simp only [step, propsReturn]
        cases ret with
        | resource => exact ⟨hb, ho⟩
        | node s => exact nodeReturn_sat _ _ _ hf.2.2 hb ho
      | directive s => exact ⟨hk, ho⟩
      | chars s => exact ⟨hk, ho⟩
      | comment s => exact ⟨hk, ho⟩
      | procInst a b => exact ⟨hk, ho⟩
    | pelt ctx nctx subj pred attrs rdfID found chars child =>
      cases tok with
      | start ns name cattrs =>
        simp only [step]
        split
        · exact ho
        · split
          · exact ho
          · exact callNode_sat _ _ _ _ _ _ hf.2.1 (stackOK_cons (f := .pelt ctx nctx subj pred attrs rdfID found chars (ns ++ name)) hf hb) ho
      | end_ ns name =>
        simp only [step]
        have h1 := peltEnd_sat (P := P) ctx subj pred attrs rdfID found chars st hf.1 hf.2.2 ho
        cases hp : peltEnd P ctx subj pred attrs rdfID found chars st with
        | panic => trivial
        | fail e st1 => rw [hp] at h1; exact h1
        | ok r st1 => rw [hp] at h1; exact ⟨hb, h1.1⟩
      | chars s => exact ⟨stackOK_cons (f := .pelt ctx nctx subj pred attrs rdfID found (chars ++ s) child) hf hb, ho⟩
      | directive s => exact ⟨hk, ho⟩
      | comment s => exact ⟨hk, ho⟩
      | procInst a b => exact ⟨hk, ho⟩
    | lit ctx subj pred rdfAttrs depth content =>
      have hnew : ∀ d c, StackOK (.lit ctx subj pred rdfAttrs d c :: below) :=
        fun d c => stackOK_cons (f := .lit ctx subj pred rdfAttrs d c) hf hb
      cases tok with
      | end_ ns name =>
        simp only [step]
        split
        · cases hr : P.render content.reverse with
          | none => exact ho
          | some lex =>
            simp only []
            have h1 := reifyEachID_sat (P := P) ctx rdfAttrs (st.emit ⟨subj, pred, .lit lex rdfXMLLiteral none⟩)
              (outWF_emit ho ⟨hf.2, by simp [WFObj, xmlLit_ne_lang, xmlLit_ne_dir]⟩)
            cases hq : reifyEachID P ctx rdfAttrs (st.emit ⟨subj, pred, .lit lex rdfXMLLiteral none⟩) with
            | panic => trivial
            | fail e st1 => rw [hq] at h1; exact h1
            | ok u st1 => rw [hq] at h1; exact ⟨hb, h1.1⟩
        · split
          · exact ho
          · exact ⟨hnew _ _, ho⟩
      | start ns name cattrs =>
        simp only [step]
        split
        · exact ho
        · exact ⟨hnew _ _, ho⟩
      | chars s => simp only [step]; split; exact ho; exact ⟨hnew _ _, ho⟩
      | directive s => simp only [step]; split; exact ho; exact ⟨hnew _ _, ho⟩
      | comment s => simp only [step]; split; exact ho; exact ⟨hnew _ _, ho⟩
      | procInst a b => simp only [step]; split; exact ho; exact ⟨hnew _ _, ho⟩
    | coll ctx subj pred rdfID last =>
      cases tok with
      | start ns name attrs =>
        simp only [step]
        split
        · exact ho
        · exact callNode_sat _ _ _ _ _ _ hf.1 hk ho
      | end_ ns name =>
        simp only [step]
        cases last with
        | none =>
          simp only []
          have h1 := optReify_sat (P := P) ctx rdfID 0 (st.emit ⟨subj, pred, .iri RX.rdfNil⟩) (outWF_emit ho ⟨hf.2.1, wfObj_iri _⟩)
          cases hr : optReify P ctx rdfID 0 (st.emit ⟨subj, pred, .iri RX.rdfNil⟩) with
          | panic => trivial
          | fail e st1 => rw [hr] at h1; exact h1
          | ok u st1 => rw [hr] at h1; exact ⟨hb, h1.1⟩
        | some l => exact ⟨hb, outWF_emit ho ⟨hf.2.2 l rfl, wfObj_iri _⟩⟩
      | directive s => exact ⟨hk, ho⟩
      | chars s => exact ⟨hk, ho⟩
      | comment s => exact ⟨hk, ho⟩
      | procInst a b => exact ⟨hk, ho⟩

theorem run_wf (ctx0 : Ctx) (stk : List Frame) (st : St) (toks : List Tok) (fin : Fin)
    (h0 : LangOK ctx0) (hk : StackOK stk) (ho : OutWF st) :
    ∀ t ∈ emitted (run P ctx0 stk st toks fin), WFTriple t := by
  induction toks generalizing stk st with
  | nil =>
    intro t ht
    unfold run finish at ht
    have : t ∈ st.out := by
      repeat' split at ht
      all_goals simpa [emitted] using ht
    exact ho t this
  | cons tok rest ih =>
    unfold run
    have h1 := step_sat (P := P) ctx0 stk st tok h0 hk ho
    cases hs : step P ctx0 stk st tok with
    | panic => intro t ht; simp [emitted] at ht
    | fail e st1 =>
      rw [hs] at h1
      intro t ht
      simp only [emitted, List.mem_reverse] at ht
      exact h1 t ht
    | cont stk1 st1 => rw [hs] at h1; exact ih _ _ h1.1 h1.2

end RdfModel.RXD
