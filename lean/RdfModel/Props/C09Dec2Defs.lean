/-
  Part C09D2: the fragment of plans covered by `rxd_refines_denote_full_partial` (Props/C09Dec2.lean).

  FULL-PARTIAL fragment = the striped fragment of Props/C09DecDefs.lean (typed / rdf:Description nodes, rdf:about /
  rdf:nodeID / anonymous subjects, xml:base / xml:lang anywhere, literal property attributes outside the RDF
  namespace on node elements and on empty property elements, literal / rdf:datatype / empty / rdf:resource /
  rdf:nodeID / parseType="Literal" property elements, rdf:li, rdf:ID reification, nested node elements, parseType="Resource")
  plus parseType="Collection" whose items are ITEM nodes: node elements with an rdf:about or rdf:nodeID subject and
  leaf property elements, i.e. items that generate no blank node of their own.  For such collections the decoder
  and the denotation number the list cells identically, so no renaming is needed (only a permutation); a
  collection with anonymous or nested-anonymous items needs the cell/item renaming and is NOT covered.
  Node elements (collection items included) and empty property elements may also carry rdf:type="…" and other
  rdf:-namespace property attributes (the decoder emits them at another position: permutation).
  Also NOT covered: rdf:ID on node elements.
-/
import RdfModel.Props.C09DecDefs
namespace RdfModel.C09Dec
open RdfModel RdfModel.Desc RdfModel.RX RdfModel.RXD

/-- property attributes of a node element: any literal one (also in the RDF namespace: rdf:value, rdf:_n, …) and
    rdf:type="…"; only the pseudo-namespace "xmlns" is excluded -/
def nodePAttr : PAttr → Bool
  | .lit ns _ _ _ => decide (ns ≠ xmlnsSpace)
  | .type _ _ => true

def itemSubj : Subj → Bool
  | .about _ _ => true
  | .nodeID _ => true
  | _ => false

/-- a collection item that generates no blank node: rdf:about / rdf:nodeID subject, leaf property elements -/
def itemNode : PNode → Bool
  | .mk _ subj _ pattrs props => itemSubj subj && pattrs.all nodePAttr && props.all leafProp

mutual
def fullNode : PNode → Bool
  | .mk _ subj _ pattrs props => leafSubj subj && pattrs.all nodePAttr && fullProps props
def fullProps : List PProp → Bool
  | [] => true
  | p :: ps => fullProp p && fullProps ps
def fullProp : PProp → Bool
  | .lit _ _ _ _ _ => true
  | .typed _ _ _ _ _ _ => true
  | .empty _ _ _ _ => true
  | .res _ _ _ _ _ pattrs => pattrs.all nodePAttr
  | .bref _ _ _ _ pattrs => pattrs.all nodePAttr
  | .banon _ _ _ _ _ pattrs => pattrs.all nodePAttr
  | .ptLit _ _ _ _ _ => true
  | .node _ _ _ n => fullNode n
  | .ptRes _ _ _ _ props => fullProps props
  | .ptColl _ _ _ _ items => items.all itemNode
end

def fullNodes : List PNode → Bool
  | [] => true
  | n :: ns => fullNode n && fullNodes ns

def fullDoc (d : PDoc) : Bool := fullNodes d.nodes

/-! ## rdf:ID on node elements (conditional theorem `rxd_refines_denote_id_conditional`)

  The full-partial fragment with ANY subject form on node elements outside collections, rdf:ID included. -/

mutual
def idNode : PNode → Bool
  | .mk _ _ _ pattrs props => pattrs.all nodePAttr && idProps props
def idProps : List PProp → Bool
  | [] => true
  | p :: ps => idProp p && idProps ps
def idProp : PProp → Bool
  | .lit _ _ _ _ _ => true
  | .typed _ _ _ _ _ _ => true
  | .empty _ _ _ _ => true
  | .res _ _ _ _ _ pattrs => pattrs.all nodePAttr
  | .bref _ _ _ _ pattrs => pattrs.all nodePAttr
  | .banon _ _ _ _ _ pattrs => pattrs.all nodePAttr
  | .ptLit _ _ _ _ _ => true
  | .node _ _ _ n => idNode n
  | .ptRes _ _ _ _ props => idProps props
  | .ptColl _ _ _ _ items => items.all itemNode
end

def idNodes : List PNode → Bool
  | [] => true
  | n :: ns => idNode n && idNodes ns

def idDoc (d : PDoc) : Bool := idNodes d.nodes

end RdfModel.C09Dec
