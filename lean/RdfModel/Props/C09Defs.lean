/-
  Definitions used by the C09 theorems: which graphs are in the fragment (`TripleOK`), admissible
  blank-node labellers (`LabelsOK`).
-/
import RdfModel.Spec.RdfXmlFragment
namespace RdfModel.C09
open RdfModel RdfModel.Desc RdfModel.RX

variable {β : Type}

/-- `rdf:nodeID` values must be NCNames, and distinct blank nodes need distinct values. -/
structure LabelsOK (label : β → Str) : Prop where
  inj : Function.Injective label
  ncname : ∀ b, isNCName (label b) = true

/-- An IRI the flat writer can put into `rdf:about` / `rdf:resource` / `rdf:datatype` as it stands:
    resolving it against the document base gives it back (every absolute IRI without dot segments
    has this property for RFC 3986 resolution). -/
def IriOK (rs : Str → Str → Str) (base i : Str) : Prop := rs base i = i

def SubjOK (rs : Str → Str → Str) (base : Str) : Term β → Prop
  | .iri i => IriOK rs base i
  | .bnode _ => True
  | .lit _ _ _ => False

/-- Objects: IRIs as above; language-tagged strings have a non-empty tag and datatype
    `rdf:langString`; a literal without tag either is an `xsd:string`, or has a non-empty lexical
    form and a datatype IRI that can be written (RDF/XML has no way to write a typed literal with
    empty lexical form: `<p rdf:datatype="d"/>` is an emptyPropertyElt, whose object is a blank node). -/
def ObjOK (rs : Str → Str → Str) (base : Str) : Term β → Prop
  | .iri i => IriOK rs base i
  | .bnode _ => True
  | .lit _ dt (some l) => l ≠ [] ∧ dt = rdfLangString
  | .lit lex dt none => dt = xsdString ∨ (lex ≠ [] ∧ IriOK rs base dt ∧ dt ≠ rdfLangString ∧ dt ≠ rdfDirLangString)

/-- A triple of the fragment: the predicate splits into a namespace and an NCName such that the
    element name is a propertyElementURI other than `rdf:li` (`predOK`, executable). -/
structure TripleOK (rs : Str → Str → Str) (base : Str) (t : Triple β) : Prop where
  subj : SubjOK rs base t.s
  pred : predOK t.p = true
  obj : ObjOK rs base t.o

end RdfModel.C09
