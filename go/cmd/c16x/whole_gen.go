package main

// Grammar-directed generators of (mostly valid) RDF/JSON, JSON-LD, RDF/XML, RDFa, Microdata and
// HTML+JSON-LD documents exercising offsets: multi-line, CRLF, lone CR, tabs, multi-byte and astral
// characters, references, CDATA, comments, several statements per line, nesting.

import (
	"fmt"
	"strings"

	"verifharness/vh"
)

type wg struct {
	r     *vh.Rng
	depth int
	ctx   bool // JSON-LD: a context with terms is in force
	bad   bool // JSON formats: ill-formed UTF-8 may appear inside strings
	eolS  string
}

var wholeUni = []string{"é", "ÿ", "中", "文", "\U0001F600", "\U00010000", "¡", "ǆ"}
var wholeNonSimple = []string{"é", "‍", "α", "　", " ", "\U0001F1E6\U0001F1FA"}

func (g *wg) word() string {
	s := g.r.LangTag()
	s = strings.ReplaceAll(s, "-", "")
	if len(s) > 6 {
		s = s[:6]
	}
	return s
}

// uni: a word, sometimes with multi-byte / astral characters (rarely non-Simple ones).
func (g *wg) uni() string {
	switch g.r.Intn(10) {
	case 0, 1, 2:
		return g.word() + vh.Pick(g.r, wholeUni)
	case 3:
		return vh.Pick(g.r, wholeUni) + g.word()
	case 4:
		if g.r.Chance(20) {
			return g.word() + vh.Pick(g.r, wholeNonSimple)
		}
	}
	return g.word()
}

func (g *wg) eol() string {
	if g.eolS != "" && g.r.Chance(92) {
		return g.eolS
	}
	if g.eolS == "\n" {
		return "\n\n"
	}
	return vh.Pick(g.r, []string{"\n", "\n", "\n", "\r\n", "\r", "\n\n", "\r\n\r\n"})
}

// ws: JSON / markup layout between tokens.
func (g *wg) ws() string {
	switch g.r.Intn(12) {
	case 0:
		return g.eol()
	case 1:
		return g.eol() + strings.Repeat(vh.Pick(g.r, []string{" ", "  ", "\t"}), 1+g.r.Intn(3))
	case 2:
		return "\t"
	case 3, 4, 5:
		return " "
	case 6:
		return "  "
	}
	return ""
}

func (g *wg) absIRI() string {
	s := vh.Pick(g.r, []string{"http://e.example/", "http://e.example/a/b#", "urn:x:", "https://example.org/p?q=1&r=2#", "http://é.example/中/", "tag:e,2000:"})
	if g.r.Chance(70) {
		s += g.uni()
	}
	return s
}

// ---------------------------------------------------------------- JSON strings

func (g *wg) jsonEsc(s string) string {
	var sb strings.Builder
	sb.WriteByte('"')
	for _, c := range s {
		switch {
		case c == '"' || c == '\\':
			sb.WriteByte('\\')
			sb.WriteRune(c)
		case c == '\n':
			sb.WriteString("\\n")
		case c == '\r':
			sb.WriteString("\\r")
		case c == '\t':
			sb.WriteString("\\t")
		case c < 0x20:
			fmt.Fprintf(&sb, "\\u%04x", c)
		case c == '/' && g.r.Chance(10):
			sb.WriteString("\\/")
		case c > 0x7f && c < 0x10000 && g.r.Chance(25):
			fmt.Fprintf(&sb, "\\u%04X", c)
		case c >= 0x10000 && g.r.Chance(40):
			c -= 0x10000
			fmt.Fprintf(&sb, "\\u%04x\\u%04x", 0xd800+(c>>10), 0xdc00+(c&0x3ff))
		default:
			sb.WriteRune(c)
		}
	}
	if g.bad && g.r.Chance(2) {
		sb.WriteString(vh.Pick(g.r, ttlBadBytes))
	}
	sb.WriteByte('"')
	return sb.String()
}

func (g *wg) lexical() string {
	n := g.r.Intn(4)
	parts := make([]string, 0, n)
	for i := 0; i < n; i++ {
		switch g.r.Intn(8) {
		case 0:
			parts = append(parts, vh.Pick(g.r, []string{"\n", "\t", "\"", "\\", "/", "<", "&", "'", "\r\n", " ", "{", "}", ":"}))
		default:
			parts = append(parts, g.uni())
		}
	}
	return strings.Join(parts, vh.Pick(g.r, []string{" ", "", "-"}))
}

// ---------------------------------------------------------------- RDF/JSON

func genRdfjson(r *vh.Rng) []byte {
	g := &wg{r: r, bad: true}
	if r.Chance(50) {
		g.eolS = vh.Pick(r, []string{"\n", "\r\n", "\r"})
	}
	var sb strings.Builder
	w := func(s string) { sb.WriteString(s) }
	subj := func() string {
		if r.Chance(25) {
			return "_:" + vh.Pick(r, []string{"b0", "a", "x1", "é", "n-1", "中"})
		}
		return g.absIRI()
	}
	obj := func() string {
		m := [][2]string{}
		switch r.Intn(10) {
		case 0, 1:
			m = append(m, [2]string{"type", "uri"}, [2]string{"value", g.absIRI()})
		case 2:
			m = append(m, [2]string{"type", "bnode"}, [2]string{"value", "_:" + vh.Pick(r, []string{"b0", "o", "é", "x.y"})})
		default:
			m = append(m, [2]string{"type", "literal"}, [2]string{"value", g.lexical()})
			switch r.Intn(5) {
			case 0:
				m = append(m, [2]string{"lang", r.LangTag()})
			case 1:
				m = append(m, [2]string{"datatype", vh.Pick(r, []string{xsdNS + "integer", xsdNS + "string", "http://dt.example/é", rdfLangStr, "urn:dt"})})
			case 2:
				if r.Chance(30) {
					m = append(m, [2]string{"lang", r.LangTag()}, [2]string{"datatype", rdfLangStr})
				}
			}
		}
		if r.Chance(6) {
			m = append(m, vh.Pick(r, [][2]string{{"value", "dup"}, {"type", "uri"}, {"xtra", "1"}, {"lang", ""}, {"datatype", ""}}))
		}
		if r.Chance(4) && len(m) > 1 {
			m = m[1:]
		}
		for i := len(m) - 1; i > 0; i-- {
			k := r.Intn(i + 1)
			m[i], m[k] = m[k], m[i]
		}
		s := "{" + g.ws()
		for i, kv := range m {
			if i > 0 {
				s += g.ws() + "," + g.ws()
			}
			s += g.jsonEsc(kv[0]) + g.ws() + ":" + g.ws() + g.jsonEsc(kv[1])
		}
		return s + g.ws() + "}"
	}
	w(g.ws() + "{" + g.ws())
	for i, n := 0, r.Intn(4); i < n; i++ {
		if i > 0 {
			w(g.ws() + "," + g.ws())
		}
		w(g.jsonEsc(subj()) + g.ws() + ":" + g.ws() + "{" + g.ws())
		for k, m := 0, r.Intn(3)+btoi(r.Chance(90)); k < m; k++ {
			if k > 0 {
				w(g.ws() + "," + g.ws())
			}
			w(g.jsonEsc(g.absIRI()) + g.ws() + ":" + g.ws() + "[" + g.ws())
			for x, y := 0, r.Intn(3)+btoi(r.Chance(90)); x < y; x++ {
				if x > 0 {
					w(g.ws() + "," + g.ws())
				}
				w(obj())
			}
			w(g.ws() + "]")
		}
		w(g.ws() + "}")
	}
	w(g.ws() + "}" + g.ws())
	return []byte(sb.String())
}

func btoi(b bool) int {
	if b {
		return 1
	}
	return 0
}

// ---------------------------------------------------------------- JSON-LD

func (g *wg) ldID() string {
	switch g.r.Intn(10) {
	case 0, 1:
		return "_:" + vh.Pick(g.r, []string{"b0", "a", "n1", "é"})
	case 2:
		return vh.Pick(g.r, []string{"rel", "#frag", "../up", "", "a/b", "?q"})
	case 3:
		if g.ctx {
			return "ex:" + g.word()
		}
	}
	return g.absIRI()
}

func (g *wg) ldKey() string {
	if g.ctx && g.r.Chance(60) {
		return vh.Pick(g.r, []string{"name", "knows", "tags", "label", "ex:" + g.word(), g.word(), "byId", "ix"})
	}
	if g.r.Chance(5) {
		return g.word() // dropped without @vocab
	}
	return g.absIRI()
}

func (g *wg) ldScalar() string {
	switch g.r.Intn(8) {
	case 0:
		return vh.Pick(g.r, []string{"0", "1", "-5", "42", "1.5", "-0.25", "1e3", "1E+2", "2.5e-3", "12345678901234567890", "1.0", "-0", "0.0", "1e21", "100000000000000000000"})
	case 1:
		return vh.Pick(g.r, []string{"true", "false"})
	case 2:
		if g.r.Chance(30) {
			return "null"
		}
	}
	return g.jsonEsc(g.lexical())
}

func (g *wg) ldMembers(ms []string) string {
	for i := len(ms) - 1; i > 0; i-- {
		k := g.r.Intn(i + 1)
		ms[i], ms[k] = ms[k], ms[i]
	}
	return "{" + g.ws() + strings.Join(ms, g.ws()+","+g.ws()) + g.ws() + "}"
}

func (g *wg) ldMember(k, v string) string { return g.jsonEsc(k) + g.ws() + ":" + g.ws() + v }

func (g *wg) ldArray(n int, f func() string) string {
	xs := make([]string, n)
	for i := range xs {
		xs[i] = f()
	}
	return "[" + g.ws() + strings.Join(xs, g.ws()+","+g.ws()) + g.ws() + "]"
}

func (g *wg) ldValue() string {
	g.depth++
	defer func() { g.depth-- }()
	n := g.r.Intn(14)
	if g.depth > 3 && n >= 7 {
		n = 0
	}
	switch {
	case n < 5:
		return g.ldScalar()
	case n < 7:
		ms := []string{g.ldMember("@value", g.ldScalar())}
		switch g.r.Intn(4) {
		case 0:
			ms = append(ms, g.ldMember("@language", g.jsonEsc(g.r.LangTag())))
		case 1:
			ms = append(ms, g.ldMember("@type", g.jsonEsc(vh.Pick(g.r, []string{xsdNS + "integer", xsdNS + "double", "http://dt.example/t", "@json", xsdNS + "boolean"}))))
		}
		return g.ldMembers(ms)
	case n < 9:
		return g.ldNode(false)
	case n == 9:
		return g.ldMembers([]string{g.ldMember("@id", g.jsonEsc(g.ldID()))})
	case n == 10:
		return g.ldMembers([]string{g.ldMember("@list", g.ldArray(g.r.Intn(4), g.ldValue))})
	case n == 11:
		return g.ldMembers([]string{g.ldMember("@set", g.ldArray(g.r.Intn(3), g.ldValue))})
	default:
		return g.ldArray(g.r.Intn(4), g.ldValue)
	}
}

func (g *wg) ldNode(top bool) string {
	var ms []string
	if g.r.Chance(65) {
		ms = append(ms, g.ldMember("@id", g.jsonEsc(g.ldID())))
	}
	if g.r.Chance(40) {
		ty := func() string {
			if g.ctx && g.r.Chance(40) {
				return g.jsonEsc(vh.Pick(g.r, []string{"Person", "ex:" + g.word(), g.word()}))
			}
			return g.jsonEsc(g.absIRI())
		}
		if g.r.Chance(60) {
			ms = append(ms, g.ldMember("@type", ty()))
		} else {
			ms = append(ms, g.ldMember("@type", g.ldArray(g.r.Intn(3), ty)))
		}
	}
	for i, n := 0, g.r.Intn(4); i < n; i++ {
		ms = append(ms, g.ldMember(g.ldKey(), g.ldValue()))
	}
	if g.r.Chance(8) && g.depth < 3 {
		ms = append(ms, g.ldMember("@reverse", g.ldMembers([]string{g.ldMember(g.absIRI(), g.ldNode(false))})))
	}
	if g.r.Chance(10) && g.depth < 2 {
		g.depth++
		ms = append(ms, g.ldMember("@graph", g.ldArray(g.r.Intn(3), func() string { return g.ldNode(false) })))
		g.depth--
	}
	return g.ldMembers(ms)
}

func (g *wg) ldContext() string {
	ms := []string{}
	add := func(p int, k, v string) {
		if g.r.Chance(p) {
			ms = append(ms, g.ldMember(k, v))
		}
	}
	add(50, "@vocab", g.jsonEsc("http://v.example/ns#"))
	ms = append(ms, g.ldMember("ex", g.jsonEsc("http://ex.example/")))
	add(80, "name", g.jsonEsc("http://xmlns.com/foaf/0.1/name"))
	add(70, "knows", `{"@id": "http://k.example/knows", "@type": "@id"}`)
	add(60, "tags", `{"@id": "ex:tags", "@container": "@list"}`)
	add(60, "label", `{"@id": "ex:label", "@language": "en"}`)
	add(40, "byId", `{"@id": "ex:byId", "@container": "@id"}`)
	add(40, "ix", `{"@id": "ex:ix", "@container": "@index"}`)
	add(40, "Person", g.jsonEsc("http://xmlns.com/foaf/0.1/Person"))
	add(20, "@base", g.jsonEsc("http://base2.example/x/"))
	add(15, "@language", g.jsonEsc("de"))
	return g.ldMembers(ms)
}

func genJsonld(r *vh.Rng) []byte {
	g := &wg{r: r, bad: true}
	if r.Chance(50) {
		g.eolS = vh.Pick(r, []string{"\n", "\r\n", "\r", "\n  "})
	}
	g.ctx = r.Chance(35)
	body := ""
	switch r.Intn(6) {
	case 0:
		body = g.ldArray(r.Intn(3), func() string { return g.ldNode(true) })
	default:
		body = g.ldNode(true)
	}
	if g.ctx {
		// splice the context in as the first or last member of the top object (or wrap an array)
		if strings.HasPrefix(body, "{") {
			inner := strings.TrimSpace(body[1 : len(body)-1])
			c := g.ldMember("@context", g.ldContext())
			switch {
			case inner == "":
				body = "{" + g.ws() + c + g.ws() + "}"
			case r.Bool():
				body = "{" + g.ws() + c + g.ws() + "," + g.ws() + inner + g.ws() + "}"
			default:
				body = "{" + g.ws() + inner + g.ws() + "," + g.ws() + c + g.ws() + "}"
			}
		} else {
			body = "{" + g.ws() + g.ldMember("@context", g.ldContext()) + "," + g.ws() + g.ldMember("@graph", body) + g.ws() + "}"
		}
	}
	return []byte(g.ws() + body + g.ws())
}

// ---------------------------------------------------------------- RDF/XML

func (g *wg) xmlEsc(s string, attr bool) string {
	var sb strings.Builder
	for _, c := range s {
		switch {
		case c == '<':
			sb.WriteString("&lt;")
		case c == '&':
			sb.WriteString("&amp;")
		case c == '>' && g.r.Chance(50):
			sb.WriteString("&gt;")
		case c == '"' && attr:
			sb.WriteString("&quot;")
		case c == '\'' && g.r.Chance(20):
			sb.WriteString("&apos;")
		case c < 0x20 && c != '\n' && c != '\t' && c != '\r':
			sb.WriteString("?")
		case c > 0x7f && g.r.Chance(20):
			if g.r.Bool() {
				fmt.Fprintf(&sb, "&#x%X;", c)
			} else {
				fmt.Fprintf(&sb, "&#%d;", c)
			}
		default:
			sb.WriteRune(c)
		}
	}
	return sb.String()
}

// xattr: name="value" with the quoting / layout variants (mostly the plain double-quoted form).
func (g *wg) xattr(name, val string) string {
	v := g.xmlEsc(val, true)
	switch g.r.Intn(24) {
	case 0:
		return name + "='" + strings.ReplaceAll(v, "'", "&apos;") + "'"
	case 1:
		return name + " = \"" + v + "\""
	case 2:
		return name + "=" + g.eol() + "\"" + v + "\""
	}
	return name + "=\"" + v + "\""
}

func (g *wg) xsep() string {
	return vh.Pick(g.r, []string{" ", " ", " ", " ", "  ", "\t", "\n  ", "\r\n    ", "\r "})
}

func (g *wg) xref() string {
	switch g.r.Intn(8) {
	case 0:
		return vh.Pick(g.r, []string{"", "#f", "rel", "../up", "a/b", "?q=1"})
	case 1:
		return "#" + g.word()
	}
	return g.absIRI()
}

func (g *wg) xname() string {
	return vh.Pick(g.r, []string{"ex:", "ex:", "ex:", "v:", ""}) + vh.Pick(g.r, []string{"p", "name", "knows", "naïve", "名", "p-1", "p.q", "_u", "Thing", "title"})
}

func (g *wg) xcontent() string {
	var sb strings.Builder
	for i, n := 0, 1+g.r.Intn(3); i < n; i++ {
		switch g.r.Intn(12) {
		case 0:
			sb.WriteString("<![CDATA[" + vh.Pick(g.r, []string{"a<b&c", "x]]y", g.uni(), "\r\n", "<ex:p>"}) + "]]>")
		case 1:
			sb.WriteString("<!-- " + g.uni() + " -->")
		case 2:
			sb.WriteString(vh.Pick(g.r, []string{"&amp;", "&lt;", "&#xE9;", "&#128512;", "&#13;", "&quot;", "&gt;"}))
		case 3:
			sb.WriteString(g.eol())
		case 4:
			sb.WriteString(vh.Pick(g.r, []string{" ", "\t", "  "}))
		default:
			sb.WriteString(g.xmlEsc(g.uni(), false))
		}
	}
	return sb.String()
}

func (g *wg) xindent() string {
	return g.eol() + strings.Repeat(vh.Pick(g.r, []string{"  ", "\t", " "}), g.depth)
}

func (g *wg) xprop() string {
	name := g.xname()
	if g.r.Chance(12) {
		name = vh.Pick(g.r, []string{"rdf:li", "rdf:li", "rdf:_1", "rdf:_7", "rdf:value", "rdf:type"})
	}
	attrs := ""
	if g.r.Chance(10) {
		attrs += g.xsep() + g.xattr("rdf:ID", "r"+g.word())
	}
	if g.r.Chance(10) {
		attrs += g.xsep() + g.xattr("xml:lang", vh.Pick(g.r, []string{"en", "de-AT", "", "zh-Hant"}))
	}
	n := g.r.Intn(20)
	if g.depth > 3 && n >= 12 {
		n = 0
	}
	switch {
	case n < 5: // literal content
		if g.r.Chance(20) {
			attrs += g.xsep() + g.xattr("rdf:datatype", vh.Pick(g.r, []string{xsdNS + "integer", "http://dt.example/é", "#dt"}))
		}
		return "<" + name + attrs + g.maybeSp() + ">" + g.xcontent() + "</" + name + g.maybeSp() + ">"
	case n < 8: // rdf:resource
		return "<" + name + attrs + g.xsep() + g.xattr("rdf:resource", g.xref()) + g.maybeSp() + "/>"
	case n == 8:
		return "<" + name + attrs + g.xsep() + g.xattr("rdf:nodeID", "n"+g.word()) + "/>"
	case n == 9: // empty
		if g.r.Bool() {
			return "<" + name + attrs + "/>"
		}
		return "<" + name + attrs + "></" + name + ">"
	case n == 10: // property attributes on an empty property element
		a := attrs
		if g.r.Chance(50) {
			a += g.xsep() + g.xattr("rdf:resource", g.xref())
		}
		a += g.xsep() + g.xattr("ex:"+g.word(), g.lexical())
		if g.r.Chance(40) {
			a += g.xsep() + g.xattr("rdf:type", g.xref())
		}
		return "<" + name + a + "/>"
	case n == 11:
		return "<" + name + attrs + g.xsep() + g.xattr("rdf:parseType", "Literal") + ">" + vh.Pick(g.r, []string{"<b>x</b>", "a <i xmlns=\"http://h/\">é</i> b", "", "text"}) + "</" + name + ">"
	case n < 14: // nested node element
		g.depth++
		s := "<" + name + attrs + ">" + g.xindent() + g.xnode()
		g.depth--
		return s + g.xindent() + "</" + name + ">"
	case n < 16: // parseType Resource
		g.depth++
		s := "<" + name + attrs + g.xsep() + g.xattr("rdf:parseType", "Resource") + ">"
		for i, k := 0, g.r.Intn(3); i < k; i++ {
			s += g.xindent() + g.xprop()
		}
		g.depth--
		return s + g.xindent() + "</" + name + ">"
	default: // parseType Collection
		g.depth++
		s := "<" + name + attrs + g.xsep() + g.xattr("rdf:parseType", "Collection") + ">"
		for i, k := 0, g.r.Intn(3); i < k; i++ {
			s += g.xindent() + g.xnode()
		}
		g.depth--
		return s + g.xindent() + "</" + name + ">"
	}
}

func (g *wg) maybeSp() string {
	if g.r.Chance(10) {
		return vh.Pick(g.r, []string{" ", "\n", "\t"})
	}
	return ""
}

func (g *wg) xnode() string {
	name := "rdf:Description"
	if g.r.Chance(35) {
		name = vh.Pick(g.r, []string{"ex:Thing", "ex:名", "v:Class", "rdf:Bag", "rdf:Seq", "Plain"})
	}
	attrs := ""
	switch g.r.Intn(8) {
	case 0, 1, 2, 3:
		attrs += g.xsep() + g.xattr("rdf:about", g.xref())
	case 4:
		attrs += g.xsep() + g.xattr("rdf:ID", "i"+g.word())
	case 5:
		attrs += g.xsep() + g.xattr("rdf:nodeID", "b"+g.word())
	}
	if g.r.Chance(8) {
		attrs = g.xsep() + g.xattr("plain", "v") + attrs
	}
	for i, n := 0, g.r.Intn(3); i < n && g.r.Chance(40); i++ {
		attrs += g.xsep() + g.xattr("ex:a"+g.word(), g.lexical())
	}
	if g.r.Chance(10) {
		attrs += g.xsep() + g.xattr("rdf:type", g.xref())
	}
	if g.r.Chance(8) {
		attrs += g.xsep() + g.xattr("xml:base", vh.Pick(g.r, []string{"http://b2.example/x/", "sub/", "http://é.example/"}))
	}
	if g.r.Chance(8) {
		attrs += g.xsep() + g.xattr("xml:lang", vh.Pick(g.r, []string{"fr", "", "en-GB"}))
	}
	n := g.r.Intn(4)
	if g.depth > 3 {
		n = 0
	}
	if n == 0 && g.r.Chance(70) {
		return "<" + name + attrs + g.maybeSp() + "/>"
	}
	g.depth++
	s := "<" + name + attrs + ">"
	for i := 0; i < n; i++ {
		if g.r.Chance(15) {
			s += " " + g.xprop() // several statements per line
		} else {
			s += g.xindent() + g.xprop()
		}
		if g.r.Chance(8) {
			s += g.xindent() + "<!-- " + g.uni() + " -->"
		}
	}
	g.depth--
	return s + g.xindent() + "</" + name + ">"
}

func genRdfxml(r *vh.Rng) []byte {
	g := &wg{r: r}
	if r.Chance(60) {
		g.eolS = vh.Pick(r, []string{"\n", "\r\n", "\r"})
	}
	var sb strings.Builder
	if r.Chance(50) {
		sb.WriteString(vh.Pick(r, []string{"<?xml version=\"1.0\"?>", "<?xml version=\"1.0\" encoding=\"UTF-8\"?>", "<?xml version='1.0' encoding='utf-8'?>"}) + g.eol())
	}
	if r.Chance(10) {
		sb.WriteString("<!-- " + g.uni() + " -->" + g.eol())
	}
	ns := " xmlns:rdf=\"" + rdfNS + "\"" + g.xsep() + "xmlns:ex=\"http://ex.example/ns#\"" + g.xsep() + "xmlns:v=\"http://v.example/é/\""
	if r.Chance(30) {
		ns += g.xsep() + "xmlns=\"http://default.example/\""
	}
	if r.Chance(25) {
		ns += g.xsep() + g.xattr("xml:base", vh.Pick(r, []string{"http://xb.example/dir/doc", "http://xb.example/a#frag", "rel/"}))
	}
	if r.Chance(15) {
		ns += g.xsep() + g.xattr("xml:lang", vh.Pick(r, []string{"en", "ja"}))
	}
	if r.Chance(12) {
		// a single node element as the root
		s := g.xnode()
		k := strings.IndexAny(s, " \t\r\n/>")
		sb.WriteString(s[:k] + ns + s[k:])
	} else {
		sb.WriteString("<rdf:RDF" + ns + ">")
		g.depth = 1
		for i, n := 0, r.Intn(4); i < n; i++ {
			sb.WriteString(g.xindent() + g.xnode())
		}
		sb.WriteString(g.eol() + "</rdf:RDF>")
	}
	if r.Chance(70) {
		sb.WriteString(g.eol())
	}
	return []byte(sb.String())
}

// ---------------------------------------------------------------- HTML family

func (g *wg) hEsc(s string, attr byte) string {
	var sb strings.Builder
	for _, c := range s {
		switch {
		case c == '<':
			sb.WriteString("&lt;")
		case c == '&':
			sb.WriteString("&amp;")
		case c == '"' && attr == '"':
			sb.WriteString("&quot;")
		case c == '\'' && attr == '\'':
			sb.WriteString("&#39;")
		case attr == 'u' && (c == ' ' || c == '\t' || c == '\n' || c == '\r' || c == '>' || c == '"' || c == '\'' || c == '=' || c == '`'):
			fmt.Fprintf(&sb, "&#%d;", c)
		case c < 0x20 && c != '\n' && c != '\t' && c != '\r':
			sb.WriteString("?")
		case c == 'é' && g.r.Chance(30):
			sb.WriteString("&eacute;")
		case c > 0x7f && g.r.Chance(15):
			fmt.Fprintf(&sb, "&#x%X;", c)
		default:
			sb.WriteRune(c)
		}
	}
	return sb.String()
}

// hattr: an HTML attribute in one of the three syntaxes.
func (g *wg) hattr(name, val string) string {
	if g.r.Chance(5) {
		name = strings.ToUpper(name)
	}
	eq := "="
	if g.r.Chance(6) {
		eq = vh.Pick(g.r, []string{" = ", "= ", " =", "=\n"})
	}
	switch g.r.Intn(36) {
	case 0, 1, 2, 3, 4, 5:
		return name + eq + "'" + g.hEsc(val, '\'') + "'"
	case 6:
		// rare: an unquoted value that is not last in its tag derails inspecthtml for the rest of the
		// document (finding H4)
		if val != "" && !strings.HasSuffix(val, "/") {
			return name + eq + g.hEsc(val, 'u')
		}
	}
	return name + eq + "\"" + g.hEsc(val, '"') + "\""
}

func (g *wg) htext() string {
	var sb strings.Builder
	for i, n := 0, 1+g.r.Intn(3); i < n; i++ {
		switch g.r.Intn(12) {
		case 0:
			sb.WriteString(vh.Pick(g.r, []string{"&amp;", "&lt;", "&eacute;", "&#x4E2D;", "&#128512;", "&nbsp;", "&copy", "&notanentity;"}))
		case 1:
			sb.WriteString("<!-- " + g.word() + " -->")
		case 2:
			sb.WriteString(g.eol())
		case 3:
			sb.WriteString(" ")
		default:
			sb.WriteString(g.hEsc(g.uni(), 0))
		}
	}
	return sb.String()
}

func (g *wg) hattrs(as []string) string {
	for i := len(as) - 1; i > 0; i-- {
		k := g.r.Intn(i + 1)
		as[i], as[k] = as[k], as[i]
	}
	s := ""
	for _, a := range as {
		s += vh.Pick(g.r, []string{" ", " ", " ", "  ", "\n", "\t", "\r\n  "}) + a
	}
	return s
}

func (g *wg) hindent() string {
	return g.eol() + strings.Repeat(vh.Pick(g.r, []string{"  ", "\t"}), g.depth)
}

func (g *wg) rdfaName() string {
	return vh.Pick(g.r, []string{"ex:p", "ex:" + g.word(), "dc:title", "foaf:name", "name", "license", "http://p.example/" + g.word(), "schema:" + g.word(), "ex:名", ":x", "next"})
}

func (g *wg) rdfaRes() string {
	switch g.r.Intn(10) {
	case 0:
		return vh.Pick(g.r, []string{"_:b1", "[_:b2]", "_:", "[ex:thing]", "[]"})
	case 1:
		return vh.Pick(g.r, []string{"", "#me", "rel/path", "../up", "?q=1"})
	case 2:
		return "ex:" + g.word()
	}
	return g.absIRI()
}

func (g *wg) rdfaElem() string {
	g.depth++
	defer func() { g.depth-- }()
	var as []string
	tag := vh.Pick(g.r, []string{"div", "span", "p", "a", "img", "time", "li", "section", "h1", "meta", "link", "b"})
	names := func() string {
		s := g.rdfaName()
		for g.r.Chance(20) {
			s += vh.Pick(g.r, []string{" ", "  ", "\n"}) + g.rdfaName()
		}
		return s
	}
	if g.r.Chance(35) {
		as = append(as, g.hattr("about", g.rdfaRes()))
	}
	if g.r.Chance(55) {
		as = append(as, g.hattr("property", names()))
	}
	if g.r.Chance(20) {
		as = append(as, g.hattr(vh.Pick(g.r, []string{"rel", "rel", "rev"}), names()))
	}
	if g.r.Chance(25) {
		s := g.rdfaName()
		if g.r.Chance(25) {
			s += " " + g.rdfaName()
		}
		as = append(as, g.hattr("typeof", s))
	}
	if g.r.Chance(20) {
		as = append(as, g.hattr("resource", g.rdfaRes()))
	}
	if g.r.Chance(20) || tag == "a" || tag == "link" {
		as = append(as, g.hattr("href", g.rdfaRes()))
	}
	if tag == "img" {
		as = append(as, g.hattr("src", g.absIRI()))
	}
	if g.r.Chance(15) || tag == "meta" {
		as = append(as, g.hattr("content", g.lexical()))
	}
	if g.r.Chance(10) {
		as = append(as, g.hattr("datatype", vh.Pick(g.r, []string{"xsd:integer", "", "rdf:XMLLiteral", "rdf:HTML", "ex:dt"})))
	}
	if tag == "time" && g.r.Chance(60) {
		as = append(as, g.hattr("datetime", vh.Pick(g.r, []string{"2020-01-02", "2020-01-02T03:04:05Z", "P1D", "2020", "bogus"})))
	}
	if g.r.Chance(8) {
		as = append(as, g.hattr("lang", vh.Pick(g.r, []string{"en", "fr", ""})))
	}
	if g.r.Chance(6) {
		as = append(as, g.hattr("vocab", vh.Pick(g.r, []string{"http://schema.org/", "http://v.example/ns#", ""})))
	}
	if g.r.Chance(6) {
		as = append(as, g.hattr("prefix", "ex: http://ex.example/ns# q: http://q.example/"))
	}
	if g.r.Chance(5) {
		as = append(as, "inlist", g.hattr("id", "i"+g.word()))
	}
	open := "<" + tag + g.hattrs(as)
	if htmlVoid[tag] {
		return open + vh.Pick(g.r, []string{">", " />", "/>", " >"})
	}
	s := open + ">"
	n := g.r.Intn(3)
	if g.depth > 3 {
		n = 0
	}
	if tag == "p" || tag == "h1" || tag == "b" || tag == "span" || tag == "a" || tag == "time" {
		// phrasing content only
		s += g.htext()
		for i := 0; i < n && g.depth <= 3; i++ {
			if g.r.Chance(40) {
				g.depth++
				s += "<span " + g.hattr("property", g.rdfaName()) + ">" + g.htext() + "</span>"
				g.depth--
			}
		}
		return s + "</" + tag + ">"
	}
	if n == 0 {
		return s + g.htext() + "</" + tag + ">"
	}
	for i := 0; i < n; i++ {
		if g.r.Chance(30) {
			s += g.htext()
		}
		s += g.hindent() + g.rdfaElem()
	}
	return s + g.hindent() + "</" + tag + ">"
}

func (g *wg) mdItem(prop string) string {
	g.depth++
	defer func() { g.depth-- }()
	tag := vh.Pick(g.r, []string{"div", "section", "article", "span", "li"})
	as := []string{"itemscope"}
	if g.r.Chance(10) {
		as[0] = vh.Pick(g.r, []string{"itemscope=\"\"", "itemscope=itemscope", "ITEMSCOPE"})
	}
	if prop != "" {
		as = append(as, g.hattr("itemprop", prop))
	}
	if g.r.Chance(65) {
		t := vh.Pick(g.r, []string{"http://schema.org/Person", "https://schema.org/Thing", "http://md.example/ns#T", "http://md.example/é/名"})
		if g.r.Chance(15) {
			t += vh.Pick(g.r, []string{" ", "  ", "\n"}) + "http://schema.org/Other"
		}
		as = append(as, g.hattr("itemtype", t))
	}
	if g.r.Chance(30) {
		as = append(as, g.hattr("itemid", vh.Pick(g.r, []string{g.absIRI(), "#me", " http://sp.example/x ", "rel"})))
	}
	if g.r.Chance(8) {
		as = append(as, g.hattr("itemref", "refd"))
	}
	s := "<" + tag + g.hattrs(as) + ">"
	n := g.r.Intn(4)
	if g.depth > 3 {
		n = 1
	}
	for i := 0; i < n; i++ {
		s += g.hindent() + g.mdProp()
	}
	return s + g.hindent() + "</" + tag + ">"
}

func (g *wg) mdPropName() string {
	s := vh.Pick(g.r, []string{"name", "url", g.word(), "http://p.example/abs", "名", "a.b"})
	if g.r.Chance(15) {
		s += " " + g.word()
	}
	return s
}

func (g *wg) mdProp() string {
	p := g.hattr("itemprop", g.mdPropName())
	switch g.r.Intn(12) {
	case 0:
		return "<a" + g.hattrs([]string{p, g.hattr("href", g.rdfaRes())}) + ">" + g.htext() + "</a>"
	case 1:
		return "<img" + g.hattrs([]string{p, g.hattr("src", g.absIRI()), g.hattr("alt", g.uni())}) + vh.Pick(g.r, []string{">", "/>", " />"})
	case 2:
		return "<meta" + g.hattrs([]string{p, g.hattr("content", g.lexical())}) + ">"
	case 3:
		return "<time" + g.hattrs([]string{p, g.hattr("datetime", vh.Pick(g.r, []string{"2021-03-04", "12:30", "P2D", "2021-03", "x"}))}) + ">" + g.htext() + "</time>"
	case 4:
		return "<data" + g.hattrs([]string{p, g.hattr("value", g.lexical())}) + ">" + g.htext() + "</data>"
	case 5:
		return "<meter" + g.hattrs([]string{p, g.hattr("value", vh.Pick(g.r, []string{"5", "0.5", "x"}))}) + "></meter>"
	case 6:
		return "<link" + g.hattrs([]string{p, g.hattr("href", g.absIRI())}) + ">"
	case 7, 8:
		if g.depth <= 3 {
			return g.mdItem(g.mdPropName())
		}
	case 9:
		return "<span " + p + "></span>"
	}
	tag := vh.Pick(g.r, []string{"span", "p", "b", "h2", "div"})
	inner := g.htext()
	if g.r.Chance(15) {
		inner += "<i>" + g.htext() + "</i>" + g.htext()
	}
	return "<" + tag + g.hattrs([]string{p}) + ">" + inner + "</" + tag + ">"
}

func (g *wg) ldScript() string {
	sub := &wg{r: g.r, eolS: g.eolS}
	sub.ctx = g.r.Chance(30)
	body := sub.ldNode(true)
	if sub.ctx {
		inner := strings.TrimSpace(body[1 : len(body)-1])
		c := sub.ldMember("@context", sub.ldContext())
		if inner == "" {
			body = "{" + c + "}"
		} else {
			body = "{" + sub.ws() + c + "," + sub.ws() + inner + sub.ws() + "}"
		}
	}
	ty := "application/ld+json"
	if g.r.Chance(5) {
		ty = vh.Pick(g.r, []string{"application/json", "APPLICATION/LD+JSON", "application/ld+json; charset=utf-8", "text/javascript"})
	}
	as := []string{g.hattr("type", ty)}
	if g.r.Chance(15) {
		as = append(as, g.hattr("id", "ld"+g.word()))
	}
	pad := vh.Pick(g.r, []string{"", "", g.eol(), g.eol() + "    ", " ", "\t"})
	return "<script" + g.hattrs(as) + ">" + pad + body + vh.Pick(g.r, []string{"", g.eol(), " "}) + "</script>"
}

// genHTML: what = "rdfa", "microdata", "htmljsonld" or "html" (mix).
func genHTML(what string, r *vh.Rng) []byte {
	g := &wg{r: r}
	// CR LF / lone CR in a minority of documents only: every CR inside a JSON-LD script block shifts the
	// embedded decoder's positions (finding H1) and would drown everything else
	switch n := r.Intn(100); {
	case n < 72:
		g.eolS = "\n"
	case n < 84:
		g.eolS = "\r\n"
	case n < 92:
		g.eolS = "\r"
	}
	rdfa := what == "rdfa" || (what == "html" && r.Chance(60))
	md := what == "microdata" || (what == "html" && r.Chance(60))
	ld := what == "htmljsonld" || (what == "html" && r.Chance(70))
	var sb strings.Builder
	if r.Chance(70) {
		sb.WriteString(vh.Pick(r, []string{"<!DOCTYPE html>", "<!doctype html>", "<!DOCTYPE html PUBLIC \"-//W3C//DTD XHTML+RDFa 1.0//EN\" \"http://www.w3.org/MarkUp/DTD/xhtml-rdfa-1.dtd\">"}) + g.eol())
	}
	if r.Chance(8) {
		// a bare fragment: no html/head/body tags
		g.depth = 0
		for i, n := 0, 1+r.Intn(3); i < n; i++ {
			switch {
			case ld && r.Chance(50):
				sb.WriteString(g.ldScript())
			case md && r.Chance(50):
				sb.WriteString(g.mdItem(""))
			default:
				sb.WriteString(g.rdfaElem())
			}
			sb.WriteString(g.eol())
		}
		return []byte(sb.String())
	}
	var has []string
	if rdfa && r.Chance(50) {
		has = append(has, g.hattr("prefix", "ex: http://ex.example/ns# dc: http://purl.org/dc/terms/"))
	} else if rdfa {
		has = append(has, g.hattr("xmlns:ex", "http://ex.example/ns#"))
	}
	if rdfa && r.Chance(20) {
		has = append(has, g.hattr("vocab", "http://vocab.example/"))
	}
	if r.Chance(30) {
		has = append(has, g.hattr("lang", vh.Pick(r, []string{"en", "de", "zh"})))
	}
	sb.WriteString("<html" + g.hattrs(has) + ">" + g.eol() + "<head>")
	g.depth = 1
	if r.Chance(70) {
		t := "<title>" + g.htext() + "</title>"
		if rdfa && r.Chance(40) {
			t = "<title " + g.hattr("property", "dc:title") + ">" + g.hEsc(g.uni(), 0) + "</title>"
		}
		sb.WriteString(g.hindent() + t)
	}
	if r.Chance(15) {
		sb.WriteString(g.hindent() + "<base " + g.hattr("href", vh.Pick(r, []string{"http://hb.example/dir/", "sub/", "http://hb.example/doc#frag"})) + ">")
	}
	if r.Chance(30) {
		sb.WriteString(g.hindent() + "<meta charset=\"utf-8\">")
	}
	if rdfa && r.Chance(30) {
		sb.WriteString(g.hindent() + "<meta" + g.hattrs([]string{g.hattr("property", g.rdfaName()), g.hattr("content", g.lexical())}) + ">")
		sb.WriteString(g.hindent() + "<link" + g.hattrs([]string{g.hattr("rel", g.rdfaName()), g.hattr("href", g.absIRI())}) + "/>")
	}
	if ld && r.Chance(50) {
		sb.WriteString(g.hindent() + g.ldScript())
	}
	if r.Chance(15) {
		sb.WriteString(g.hindent() + "<script>var x = \"<div property='a'>\"; // " + g.uni() + g.eol() + "</script>")
	}
	if r.Chance(10) {
		sb.WriteString(g.hindent() + "<style>p > b { content: \"" + g.uni() + "\" }</style>")
	}
	sb.WriteString(g.eol() + "</head>" + g.eol() + "<body")
	if rdfa && r.Chance(15) {
		sb.WriteString(" " + g.hattr("about", g.rdfaRes()))
	}
	sb.WriteString(">")
	for i, n := 0, 1+r.Intn(3); i < n; i++ {
		if r.Chance(20) {
			sb.WriteString(g.hindent() + "<!-- " + g.uni() + " -->")
		}
		if r.Chance(15) {
			sb.WriteString(g.hindent() + "<p>" + g.htext() + "</p>")
		}
		switch {
		case md && (!rdfa || r.Bool()):
			sb.WriteString(g.hindent() + g.mdItem(""))
			if r.Chance(10) {
				sb.WriteString(g.hindent() + "<div id=\"refd\">" + g.mdProp() + "</div>")
			}
		case rdfa:
			sb.WriteString(g.hindent() + g.rdfaElem())
		}
		if ld && r.Chance(35) {
			sb.WriteString(g.hindent() + g.ldScript())
		}
	}
	sb.WriteString(g.eol() + "</body>" + g.eol() + "</html>")
	if r.Chance(70) {
		sb.WriteString(g.eol())
	}
	return []byte(sb.String())
}

func genWhole(format string, r *vh.Rng) []byte {
	switch format {
	case "rdfjson":
		return genRdfjson(r)
	case "jsonld":
		return genJsonld(r)
	case "rdfxml":
		return genRdfxml(r)
	case "rdfa", "microdata", "htmljsonld", "html":
		return genHTML(format, r)
	}
	return nil
}
