/-
  Part C12W — the RFC 3986 target of (base, relative reference) inside `ResolveLang`, written with the model's
  `resolvePath`, and the fact that it lies in `InLang` again.
-/
import RdfModel.Proofs.C12WrapResolve
namespace RdfModel.C12W
open RdfModel.GoUrlFull RdfModel.PIRI
open RdfModel.Spec.RFC3986 (Parts recompose schemePart authorityPart queryPart fragmentPart resolveParts removeDotSegments
  merge NoDotSegments segments isDotSegment)

def tquery (B R : Parts) : Option Str :=
  if R.path = [] then (if R.query.isSome then R.query else B.query) else R.query

/-- the target of 5.2.2 for a relative reference, with the path computed by the model's `resolvePath` -/
def tgt (B R : Parts) : Parts :=
  { scheme := B.scheme, authority := B.authority, path := RdfModel.IRI.resolvePath B.path R.path,
    query := tquery B R, fragment := R.fragment }

structure RLFacts (B R : Parts) : Prop where
  inB : InLang B = true
  inR : InLang R = true
  bs : B.scheme.isSome = true
  ba : B.authority.isSome = true
  bh : B.path.head? = some 0x2f
  bf : B.fragment = none
  rs : R.scheme = none
  ra : R.authority = none
  bp : 0x25 ∉ B.path
  rp : 0x25 ∉ R.path
  nd : R.path = [] → C12.hasDotSegment B.path = false
  dd : C12.dotdotThenEmpty (C12.rfcFull B.path R.path) = false

theorem rlFacts {B R : Parts} (h : ResolveLang B R = true) : RLFacts B R := by
  unfold ResolveLang at h
  simp only [Bool.and_eq_true, Bool.not_eq_true', Bool.or_eq_true, beq_iff_eq, Option.isNone_iff_eq_none,
    List.contains_eq_mem, decide_eq_false_iff_not, List.isEmpty_iff] at h
  obtain ⟨⟨⟨⟨⟨⟨⟨⟨⟨⟨⟨h1, h2⟩, h3⟩, h4⟩, h5⟩, h6⟩, h7⟩, h8⟩, h9⟩, h10⟩, h11⟩, h12⟩ := h
  refine ⟨h1, h2, h3, h4, h5, h6, h7, h8, h9, h10, ?_, h12⟩
  intro hr
  rcases h11 with h | h
  · exact absurd hr (by simpa using h)
  · exact h

theorem resolveParts_eq_tgt {B R : Parts} (h : RLFacts B R) : resolveParts B R = tgt B R := by
  have hb : B.path.head? = some RdfModel.Spec.RFC3986.cSlash := h.bh
  have hrp := C12.resolvePath_eq_rfc_partial B.path R.path hb h.dd
  unfold resolveParts tgt tquery
  simp only [h.rs, h.ra, Option.isSome_none, Bool.false_eq_true, if_false]
  by_cases hr : R.path = []
  · simp only [hr, if_true]
    rw [hr] at hrp
    have hnd : NoDotSegments B.path := by
      intro s hs
      have := h.nd hr
      unfold C12.hasDotSegment at this
      exact List.any_eq_false.mp this s hs |> fun x => by simpa using x
    have : RdfModel.IRI.resolvePath B.path [] = B.path := by
      rw [hrp]
      have : C12.rfcFull B.path [] = B.path := by simp [C12.rfcFull]
      rw [this]
      exact C12.rds_fixes_dot_free _ hnd
    rw [this]
  · simp only [hr, if_false]
    by_cases hh : R.path.head? = some RdfModel.Spec.RFC3986.cSlash
    · simp only [hh, if_true]
      have : C12.rfcFull B.path R.path = R.path := by simp [C12.rfcFull, hr, hh]
      rw [hrp, this]
    · simp only [hh, if_false]
      have hbne : B.path ≠ [] := by intro e; rw [e] at hb; simp at hb
      have : C12.rfcFull B.path R.path = merge B.authority.isSome B.path R.path := by
        simp [C12.rfcFull, hr, hh, merge, hbne]
      rw [hrp, this]

/-! ### the target lies in `InLang` -/

def isCtl (c : Nat) : Bool := c < 0x20 || c == 0x7f

theorem hasCTL_eq (l : Str) : hasCTL l = l.any isCtl := rfl

theorem hasCTL_recompose (P : Parts) :
    hasCTL (recompose P) = (hasCTL (P.scheme.getD []) || hasCTL (P.authority.getD []) || hasCTL P.path ||
      hasCTL (P.query.getD []) || hasCTL (P.fragment.getD [])) := by
  obtain ⟨s, a, p, q, f⟩ := P
  cases s <;> cases a <;> cases q <;> cases f <;>
    simp [recompose, schemePart, authorityPart, queryPart, fragmentPart, hasCTL, List.any_append,
      RdfModel.Spec.RFC3986.cColon, RdfModel.Spec.RFC3986.cSlash, RdfModel.Spec.RFC3986.cQuest, RdfModel.Spec.RFC3986.cHash,
      Bool.or_assoc]

structure LangFacts (P : Parts) : Prop where
  sch : (match P.scheme with | some s => schemeOk s | none => true) = true
  auth : (match P.authority with | some a => authorityOk a | none => true) = true
  path : pathOk P.path = true
  shape : shapeOk P = true
  query : (match P.query with | some q => !q.contains 0x23 | none => true) = true
  frag : (match P.fragment with | some f => fragOk f | none => true) = true
  ctl : hasCTL (recompose P) = false

theorem langFacts {P : Parts} (h : InLang P = true) : LangFacts P := by
  unfold InLang at h
  simp only [Bool.and_eq_true, Bool.not_eq_true'] at h
  obtain ⟨⟨⟨⟨⟨⟨h1, h2⟩, h3⟩, h4⟩, h5⟩, h6⟩, h7⟩ := h
  exact ⟨h1, h2, h3, h4, h5, h6, h7⟩

theorem inLang_of_facts {P : Parts} (h : LangFacts P) : InLang P = true := by
  unfold InLang
  simp only [Bool.and_eq_true, Bool.not_eq_true']
  exact ⟨⟨⟨⟨⟨⟨h.sch, h.auth⟩, h.path⟩, h.shape⟩, h.query⟩, h.frag⟩, h.ctl⟩

/-- without '%' a string unescapes to itself (path and fragment modes) -/
theorem unescape_noPct (mode : Mode) (hm : mode ≠ .host) : ∀ (s : Str), 0x25 ∉ s → unescape mode s = .ok s
  | [], _ => by simp [unescape]
  | c :: s, h => by
    have hc : c ≠ 0x25 := fun e => h (by simp [e])
    have hs : 0x25 ∉ s := fun m => h (by simp [m])
    unfold unescape
    have hmode : (mode == Mode.host) = false := by cases mode <;> simp_all
    simp [hc, hmode, unescape_noPct mode hm s hs]

theorem tgt_path_facts {B R : Parts} (h : RLFacts B R) :
    pathOk (tgt B R).path = true ∧ 0x25 ∉ (tgt B R).path ∧ hasCTL (tgt B R).path = false ∧
    ((tgt B R).path = [] ∨ (tgt B R).path.head? = some 0x2f) := by
  have fb := langFacts h.inB
  have fr := langFacts h.inR
  have hvb := (path_facts fb.path).1
  have hvr := (path_facts fr.path).1
  have hcb : hasCTL B.path = false := by
    have := fb.ctl; rw [hasCTL_recompose] at this
    simp only [Bool.or_eq_false_iff] at this; exact this.1.1.2
  have hcr : hasCTL R.path = false := by
    have := fr.ctl; rw [hasCTL_recompose] at this
    simp only [Bool.or_eq_false_iff] at this; exact this.1.1.2
  have hmem := resolvePath_mem B.path R.path
  have hpct : 0x25 ∉ RdfModel.IRI.resolvePath B.path R.path := by
    intro hm
    rcases hmem _ hm with h1 | h1 | h1
    · exact h.bp h1
    · exact h.rp h1
    · cases h1
  refine ⟨?_, hpct, ?_, resolvePath_head _ _⟩
  · unfold pathOk
    simp only [Bool.and_eq_true]
    refine ⟨?_, ?_⟩
    · unfold validEncoded
      apply List.all_eq_true.mpr
      intro x hx
      rcases hmem x hx with h1 | h1 | h1
      · exact List.all_eq_true.mp hvb x h1
      · exact List.all_eq_true.mp hvr x h1
      · subst h1; decide
    · show unescOk .path (RdfModel.IRI.resolvePath B.path R.path) = true
      simp [unescOk, unescape_noPct .path (by decide) _ hpct]
  · show hasCTL (RdfModel.IRI.resolvePath B.path R.path) = false
    rw [hasCTL_eq]
    apply List.any_eq_false.mpr
    intro x hx
    rcases hmem x hx with h1 | h1 | h1
    · have := List.any_eq_false.mp (by rw [← hasCTL_eq]; exact hcb) x h1; simpa using this
    · have := List.any_eq_false.mp (by rw [← hasCTL_eq]; exact hcr) x h1; simpa using this
    · subst h1; decide

theorem tgt_inLang {B R : Parts} (h : RLFacts B R) : InLang (tgt B R) = true := by
  have fb := langFacts h.inB
  have fr := langFacts h.inR
  obtain ⟨hp, _, hpc, hsh⟩ := tgt_path_facts h
  have hbc := fb.ctl
  have hrc := fr.ctl
  rw [hasCTL_recompose] at hbc hrc
  simp only [Bool.or_eq_false_iff] at hbc hrc
  have htq : tquery B R = R.query ∨ tquery B R = B.query := by
    unfold tquery
    split
    · split
      · exact Or.inl rfl
      · exact Or.inr rfl
    · exact Or.inl rfl
  apply inLang_of_facts
  refine ⟨fb.sch, fb.auth, hp, ?_, ?_, fr.frag, ?_⟩
  · -- shape
    unfold shapeOk
    have : (tgt B R).authority = B.authority := rfl
    rw [this]
    cases ha : B.authority with
    | none => have := h.ba; rw [ha] at this; cases this
    | some a =>
      simp only [Bool.or_eq_true, List.isEmpty_iff, beq_iff_eq]
      exact hsh
  · -- query
    show (match tquery B R with | some q => !q.contains 0x23 | none => true) = true
    rcases htq with e | e <;> rw [e]
    · exact fr.query
    · exact fb.query
  · -- control bytes
    rw [hasCTL_recompose]
    have hq : hasCTL ((tquery B R).getD []) = false := by
      rcases htq with e | e <;> rw [e]
      · exact hrc.1.2
      · exact hbc.1.2
    simp only [Bool.or_eq_false_iff]
    exact ⟨⟨⟨⟨hbc.1.1.1.1, hbc.1.1.1.2⟩, hpc⟩, hq⟩, hrc.2⟩

end RdfModel.C12W
